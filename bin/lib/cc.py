"""Checks decided by the SlottedCC specification (direction A: every TLC state, every
linearisation, every call): C01 C02 C08 C09 C11 C12 C13."""
import json, os, time
from common import *
import tlcout

CC_PROPS = ["C01", "C02", "C05", "C06", "C08", "C09", "C11", "C12", "C13", "C14"]

TIERS = {
    # universe -> MaxEqs
    "quick": {"U1": 2, "U2": 2, "U3": 2, "U4": 2, "U5": 2, "U6": 2, "U7": 3, "U8": 2, "U9": 3, "U10": 2, "U11": 2, "U12": 2, "U13": 2, "U14": 2, "U15": 2, "U16": 2, "U17": 3, "U18": 2, "U19": 3},
    "thorough": {"U1": 3, "U2": 3, "U3": 3, "U4": 3, "U5": 3, "U6": 3, "U7": 4, "U8": 3, "U9": 4, "U10": 3, "U11": 3, "U12": 3, "U13": 3, "U14": 3, "U15": 3, "U16": 3, "U17": 3, "U18": 3, "U19": 3},
}


RANDOM_UNIVERSES = {"quick": 8, "thorough": 80}


def universe_ops(uni):
    sys.path.insert(0, UNIV)
    import patterns
    ops = set()
    for t in uni["terms"]:
        ops |= patterns.ops_of(t)
    return ops


def pattern_pool(uni):
    """the patterns of universes/patterns.py whose operators all occur in the universe (others match nothing)"""
    sys.path.insert(0, UNIV)
    import patterns
    ops = universe_ops(uni)
    return [p for p in patterns.PATTERNS if patterns.ops_of(patterns.parse_pattern(p)) <= ops]


def _one_table(u, uni, maxeqs, tag, pool_delta, workers, with_matches=False):
    sys.path.insert(0, UNIV)
    import patterns
    cfg = open(os.path.join(SPEC, "MC_CC.cfg")).read()
    pats = pattern_pool(uni) if with_matches else []
    defs = {"MCN": uni["N"] + pool_delta, "MCTermPool": uni["terms"], "MCEqPool": uni["eqs"],
            "MCMaxEqs": maxeqs, "MCInsBase": tla_set(uni["base"]),
            "MCPatterns": [patterns.parse_pattern(p) for p in pats]}
    logp, st = run_tlc_root("%s_%s" % (tag, u), "MC_CC", defs, cfg, timeout=3000, workers=workers)
    require_tlc_ok(st, logp, "MC_CC/" + u)
    us = list(tlcout.tagged_lines(logp, "UNIVERSE"))[0]
    states = list(tlcout.tagged_lines(logp, "REPLAY"))
    if len(states) != st["distinct"]:
        raise ToolError("TLC emitted %d REPLAY lines for %d distinct states" % (len(states), st["distinct"]))
    d = os.path.dirname(logp)
    tpath = os.path.join(d, "table.json")
    def fv(t, bound=()):
        out = [x for x in t["sl"] if x not in bound]
        for c in t["ch"]:
            out += fv(c["t"], tuple(bound) + tuple(c["bd"]))
        return sorted(set(out))

    def pvars(t):
        return sorted(({t["op"]} if t["op"].startswith("?") else set()).union(*[pvars(c["t"]) for c in t["ch"]]))
    def names(t):
        return sorted(set(t["sl"]).union(*[set(c["bd"]) | set(names(c["t"])) for c in t["ch"]]))
    pobjs = []
    for p in pats:
        pt = patterns.parse_pattern(p)
        pobjs.append({"text": p, "free": fv(pt), "bound": [x for x in names(pt) if x not in fv(pt)], "vars": pvars(pt)})
    json.dump({"us": us["us"], "states": states, "patterns": pobjs}, open(tpath, "w"))
    upath = os.path.join(d, "universe.json")
    json.dump(uni, open(upath, "w"))
    st["universe_terms"] = us["n"]
    return u, (uni, tpath, st, states, upath)


def cc_tables(tier, tag, pool_delta=0, with_random=True, with_matches=False):
    """run TLC on every universe of the tier (hand-written U1..U6 plus seeded random ones);
    returns {uname: (uni, table_path, stats, states, universe_path)}"""
    import concurrent.futures
    out = {}
    # development aid: VERIF_ONLY_UNIVERSES=U18,U4 restricts a run to the named hand-written universes (never set by the registered commands)
    only = [x for x in os.environ.get("VERIF_ONLY_UNIVERSES", "").split(",") if x]
    if only:
        with_random = False
    for u, maxeqs in TIERS[tier].items():
        if only and u not in only:
            continue
        uni = json.load(open(os.path.join(UNIV, u + ".json")))
        k, v = _one_table(u, uni, maxeqs, tag, pool_delta, None, with_matches)
        out[k] = v
        log("TLC %s: %d distinct states, %d transitions, universe %d terms, %.1fs" %
            (u, v[2]["distinct"], v[2]["generated"], v[2]["universe_terms"], v[2]["wall_s"]))
    if with_random:
        sys.path.insert(0, UNIV)
        import gen_random
        jobs = []
        for i in range(RANDOM_UNIVERSES[tier]):
            uni = gen_random.universe(seed(), i)
            eqs = []
            for e in uni["eqs"]:
                if e not in eqs and e[::-1] not in eqs:
                    eqs.append(e)
            uni["eqs"] = eqs
            if not eqs:
                continue
            jobs.append((uni["name"], uni, min(len(eqs), 3 if tier == "quick" else 4)))
        t0 = time.time()
        with concurrent.futures.ThreadPoolExecutor(max_workers=5) as ex:
            for k, v in ex.map(lambda j: _one_table(j[0], j[1], j[2], tag, pool_delta, 3, with_matches), jobs):
                out[k] = v
        log("TLC %d random universes (seed %d): %d states in %.1fs" %
            (len(jobs), seed(), sum(out[j[0]][2]["distinct"] for j in jobs), time.time() - t0))
    return out


SIM = {"quick": {"U1": (6, 10), "U4": (5, 8), "U9": (5, 6)},          # universe -> (depth = equations per history, number of histories)
       "thorough": {"U1": (8, 60), "U2": (6, 30), "U3": (6, 30), "U4": (7, 40), "U5": (5, 20), "U7": (6, 20), "U9": (5, 20), "U10": (5, 10)}}


def sim_tables(tier, tag):
    """LONG histories: TLC -simulate walks random behaviours of SlottedCC with up to 5..8 equations (far beyond the
    exhaustive bound of 2/3); every visited state is emitted as usual, the order in which TLC asserted the equations
    is recovered from the successive keys.  Returns {uname+'sim': (uni, table_path, stats, states, universe_path)}
    where table.json additionally holds "traces" (ordered equation lists) for cc_replay."""
    import concurrent.futures
    cfg = open(os.path.join(SPEC, "MC_CC.cfg")).read()

    def one(item):
        u, (depth, num) = item
        uni = json.load(open(os.path.join(UNIV, u + ".json")))
        depth = min(depth, len(uni["eqs"]))
        defs = {"MCN": uni["N"], "MCTermPool": uni["terms"], "MCEqPool": uni["eqs"], "MCMaxEqs": depth,
                "MCInsBase": tla_set(uni["base"]), "MCPatterns": []}
        logp, st = run_tlc_root("%s_%s_sim" % (tag, u), "MC_CC", defs, cfg, timeout=3000, workers=1,
                                simulate="num=%d" % num, extra=["-seed", str(1000 + seed()), "-aril", str(seed())])
        # TLC ends a simulation run with rc 0 after num behaviours; each behaviour has depth+1 states
        us = list(tlcout.tagged_lines(logp, "UNIVERSE"))[0]
        recs = list(tlcout.tagged_lines(logp, "REPLAY"))
        if not recs:
            raise ToolError("TLC simulation of %s emitted no states" % u)
        states, traces, cur, prev = {}, [], [], set()
        for r in recs:
            k = tuple(r["key"])
            states.setdefault(k, r)
            if len(k) == 0:
                continue
            new = set(k) - prev
            if len(new) == 1 and set(k) >= prev and len(k) == len(prev) + 1:
                cur.append(new.pop())          # successor of the previous line: the behaviour goes on
            elif len(k) == 1:
                traces.append(cur)             # TLC restarted from the initial state (which it prints only once)
                cur = [k[0]]
            else:
                raise ToolError("TLC simulation output of %s is not a sequence of behaviours" % u)
            prev = set(k)
        traces.append(cur)
        traces = [t for i, t in enumerate(traces) if t and t not in traces[:i]]
        d = os.path.dirname(logp)
        tpath = os.path.join(d, "table.json")
        json.dump({"us": us["us"], "states": list(states.values()), "patterns": [], "traces": traces}, open(tpath, "w"))
        upath = os.path.join(d, "universe.json")
        uni2 = dict(uni, name=u + "sim")
        json.dump(uni2, open(upath, "w"))
        st["universe_terms"] = us["n"]
        st["distinct"] = len(states)
        st["generated"] = len(recs)
        st["ok"] = True
        st["histories"] = len(traces)
        st["equations_per_history"] = depth
        return u + "sim", (uni2, tpath, st, list(states.values()), upath)

    out = {}
    t0 = time.time()
    with concurrent.futures.ThreadPoolExecutor(max_workers=6) as ex:
        for k, v in ex.map(one, SIM[tier].items()):
            out[k] = v
    log("TLC simulation: %d long histories (%s), %d states, %.1fs" %
        (sum(v[2]["histories"] for v in out.values()), ", ".join("%s: %d x %d eqs" % (k, v[2]["histories"], v[2]["equations_per_history"]) for k, v in out.items()),
         sum(v[2]["distinct"] for v in out.values()), time.time() - t0))
    return out


def nontrivial_states(states):
    """distinct states whose partition is not the discrete one (some class has >1 ground term)"""
    k = 0
    for s in states:
        labs = [l for l in s["lab"] if l != 0]
        if len(labs) != len(set(labs)):
            k += 1
    return k


def make_triggers(tables):
    """spec-level trigger predicates that identify known findings by the history that fails"""
    idx = {u: {tuple(s["key"]): s for s in t[3]} for u, t in tables.items()}

    def pre_post(f):
        tab = idx.get(f["universe"], {})
        step = f["step"]
        if step == 0:
            return None, None
        pre = tuple(sorted(e for e, _ in f["path"][:step - 1]))
        post = tuple(sorted(e for e, _ in f["path"][:step]))
        return tab.get(pre), tab.get(post)

    def slot_lost_in_symmetric_class(f):
        # the failing call makes a slot redundant in a term that has (before or after the call)
        # a non-trivial symmetry group: shrink_slots must then drop the whole orbit (D1)
        pre, post = pre_post(f)
        if pre is None or post is None:
            return False
        for ti in range(len(post["slots"])):
            if len(post["slots"][ti]) < len(pre["slots"][ti]) and (pre["syms"][ti] > 1 or post["syms"][ti] > 1):
                return True
        # symmetry and redundancy can also arrive in the same call
        for ti in range(len(post["slots"])):
            if len(post["slots"][ti]) < len(pre["slots"][ti]):
                return any(s > 1 for s in pre["syms"]) or any(s > 1 for s in post["syms"])
        return False

    def term_loses_two_slots_in_one_call(f):
        # cascading redundancy: one call makes at least two slots of one term redundant (D2)
        pre, post = pre_post(f)
        if pre is None or post is None:
            return False
        return any(len(pre["slots"][ti]) - len(post["slots"][ti]) >= 2 for ti in range(len(post["slots"])))

    def symmetry_arrives_and_slot_lost(f):
        # the failing call adds a symmetry to some term and (thereby) makes a slot of some term
        # redundant: symmetry exchanging a redundant with a non-redundant slot (D9)
        pre, post = pre_post(f)
        if pre is None or post is None:
            return False
        grew = any(post["syms"][ti] > pre["syms"][ti] for ti in range(len(post["syms"])))
        lost = any(len(post["slots"][ti]) < len(pre["slots"][ti]) for ti in range(len(post["slots"])))
        return grew and lost

    return {"slot_lost_in_symmetric_class": slot_lost_in_symmetric_class,
            "term_loses_two_slots_in_one_call": term_loses_two_slots_in_one_call,
            "symmetry_arrives_and_slot_lost": symmetry_arrives_and_slot_lost}


def confirm_c01(findings, tables):
    """False-alarm discipline for C01 (DESIGN 3.3): an alarm "reported equal but not implied" is
    only kept if the implementation cannot PROVE the equality: the history is rebuilt in the
    explanations build, explain_equivalence is asked for the pair and the proof DAG is checked by
    Proofs.tla.  A proof that checks shows the equality is derivable (the bounded closure of the
    specification was incomplete for this history): the alarm is dropped and counted."""
    byu = {}
    for f in findings:
        if "pair" in f.get("detail", {}) and f["universe"] in tables:
            k = (f["universe"], json.dumps(f["key"]), json.dumps(f["detail"]["pair"]))
            byu.setdefault(f["universe"], {}).setdefault(k, f)
    verdict = {}
    for u, reps in byu.items():
        reps = dict(list(reps.items())[:40])
        upath = tables[u][4]
        d = os.path.dirname(upath)
        fpath = os.path.join(d, "c01_confirm.json")
        json.dump([{"path": f["path"], "step": f["step"], "naming": f["naming"], "pair": f["detail"]["pair"]} for f in reps.values()],
                  open(fpath, "w"))
        trace = os.path.join(d, "c01_confirm.ndjson")
        run_bin("expl", "ex_confirm", [upath, fpath, trace])
        cfg = open(os.path.join(SPEC, "TraceProofs.cfg")).read()
        logp, st = run_tlc_root("C01_confirm_" + u, "TraceProofs", {}, cfg, workers=1, env={"VERIF_TRACE": trace}, xss=True, deque=True)
        if not st["ok"]:
            raise ToolError("TraceProofs failed while confirming C01 alarms")
        bad = {b["i"] for b in tlcout.tagged_lines(logp, "PROOFBAD")}
        for n, k in enumerate(reps.keys()):
            verdict[k] = (n + 1) not in bad        # True = a valid proof exists
    kept, refuted = [], 0
    for f in findings:
        k = (f["universe"], json.dumps(f["key"]), json.dumps(f.get("detail", {}).get("pair")))
        if verdict.get(k):
            refuted += 1
            if refuted <= 3:
                log("C01 alarm refuted by a checked proof (bounded closure incomplete for this history): %s %s" %
                    (f["universe"], json.dumps(f["detail"])[:200]))
        else:
            kept.append(f)
    return kept, refuted


def group_cases_monotone(tier):
    """C13 on multi-slot leaves (5 / 6 slots, beyond the SlottedCC universes): the recorded group cases of C10 (random generators
    asserted as unions, then one slot made redundant) are validated by TraceGroup.tla; here the action property Monotone of
    SlottedCC is read off the same trace: a probe that compared equal through its OLD handle before the last union must still
    compare equal through that handle afterwards."""
    import small
    cases = 40 if tier == "quick" else 300
    trace = os.path.join(OUT, "tlc", "C13_group_trace.ndjson")
    recs = jsonl(run_bin("default", "gr_replay", ["record", trace, cases]))
    findings = [dict(r, prop="C13") for r in recs if r.get("kind") == "finding"]
    ok, tst, evno, excerpt = small.validate_trace("C13_group_trace", "TraceGroup", {"TraceDeg": 2, "TraceMaxGens": 1}, trace, timeout=3000)
    lines = [json.loads(l) for l in open(trace).read().splitlines()]
    nprobes = 0
    for n, e in enumerate(lines):
        if not e["viaegraph"]:
            continue
        for i, pr in enumerate(e["probes"]):
            if i % 2 == 0:                      # asked through the handle obtained before the redundancy union
                nprobes += 1
                if pr[3] and not pr[4]:
                    findings.append({"kind": "finding", "prop": "C13", "site": "", "universe": "group-cases",
                                     "what": "equality lost: equal invocations compare unequal after a later union",
                                     "detail": {"event_no": n + 1, "deg": e["deg"], "gens": e["gens"] + e["more"], "redundant_position": e["red"],
                                                "probe": pr[0], "trace_accepted_by_TraceGroup": ok}})
                    break
    return findings, {"group_cases": len(lines), "old_handle_probes": nprobes, "tlc_trace": tst, "trace_accepted": ok}


def run_cc(prop, tier):
    t0 = time.time()
    mine, cov, tables = collect_cc(prop, tier)
    if prop == "C13":
        more, gcov = group_cases_monotone(tier)
        mine = mine + more
        cov["group_cases"] = gcov
    finish(prop, tier, t0, mine, cov, triggers=make_triggers(tables), assumptions=CC_ASSUMPTIONS)


CC_ASSUMPTIONS = [
    "TLC explored the bounded model exhaustively (constants above); the Rust code is only claimed to agree "
    "with the specification on the behaviours replayed",
    "name pool adequacy N >= names per equation + 1 (DESIGN 3.3); C01 alarms are re-confirmed with a larger pool",
]


def collect_cc(prop, tier):
    """explore the SlottedCC universes of the tier, replay every state into the real e-graph and return
    (findings of `prop`, coverage, tables)"""
    # C08: also with the crate's internal assertions compiled in; thorough: also the explanations build with the syntactic
    # insertion path (add_syn_expr) - two of the repaired panics (D13, D19) exist only there
    variants = (["default", "checks"] + (["expl"] if tier == "thorough" else [])) if prop == "C08" else ["default"]
    namings = "all" if prop == "C11" else "rotate"
    # C04 / C05: TLC also emits the complete expected match sets of the pattern pool (EMatch.tla)
    tables = cc_tables(tier, prop, with_matches=prop in ("C04", "C05"))
    if prop not in ("C04", "C11") and not os.environ.get("VERIF_ONLY_UNIVERSES"):
        tables.update(sim_tables(tier, prop))
    findings, summaries = [], []
    for variant in variants:
        for u, (uni, tpath, st, states, upath) in tables.items():
            nmode = "rotate+fresh" if (prop == "C01" and u in ("U3", "U4")) else namings
            out = run_bin(variant, "cc_replay", [upath, tpath, nmode, ncpu()],
                          env=dict({"VERIF_MAXPATHS": 64 if tier == "quick" else 128}, **({"VERIF_SYN_ADD": "1"} if variant == "expl" else {})))
            recs = jsonl(out)
            summ = [r for r in recs if r["kind"] == "summary"][0]
            if summ.get("hang"):
                summ = {"universe": u, "states": 0, "paths": 0, "steps": 0, "panics": 0, "comparisons": 0, "readds": 0, "extractions": 0,
                        "analysis_data_checked": 0, "matches_checked": 0, "completed_paths": 0, "findings": 1, "universe_terms": 0, "hang": True}
            summ["variant"] = variant
            summaries.append(summ)
            for r in recs:
                if r["kind"] == "finding":
                    r["variant"] = variant
                    findings.append(r)
    for f in findings:
        if f["prop"] == "*":          # watchdog: an operation did not terminate - no property can be judged on it
            f["prop"] = prop
    mine = [f for f in findings if f["prop"] == prop]
    extra_cov = {}
    if prop == "C01" and mine:
        mine, refuted = confirm_c01(mine, tables)
        extra_cov = {"c01_alarms_refuted_by_checked_proof": refuted}
    if prop == "C08":
        import rw
        rsum = []
        for v8 in ["default", "checks"]:
            bad8, panics8, st8, summ8, lines8 = rw.rw_trace(tier, "C08", 3, variant=v8)
            for f in panics8:
                f.setdefault("universe", "rewriting(A)")
                f["variant"] = v8
            mine += panics8
            summ8["variant"] = v8
            rsum.append(summ8)
        extra_cov = {"rewriting_runs_without_panic": {"recorder": rsum}}
    if prop == "C06":
        # extraction inside rewriting (ExtractionSubst) and after it, also in the explanations build (syntactic
        # insertion path): a panic whose site is the extractor or its support functions in egraph/mod.rs is an
        # extraction that does not succeed
        import rw
        rsum = []
        for v6 in ["default", "expl"]:
            bad6, panics6, st6, summ6, lines6 = rw.rw_trace(tier, "C06", 3, variant=v6)
            for f in panics6:
                fn = site_fn(f.get("site", ""))
                if "src/extract/" in fn or fn.split("::")[-1] in ("usages", "class_nf", "refresh_internals", "enodes_applied"):
                    f["prop"] = "C06"
                    f["what"] = "panic in the extractor during / after rewriting"
                    f.setdefault("universe", "rewriting(A)")
                    f["variant"] = v6
                    mine.append(f)
            summ6["variant"] = v6
            rsum.append(summ6)
        # design level: the work-list algorithm of Extractor::new computes the least fixpoint (= MinCost) on EVERY small e-graph
        xst = {}
        for cfgname in ["MC_ExtractOp", "MC_ExtractOp4", "MC_ExtractOpLive"]:
            xlog, st_x = run_tlc("ExtractOp", cfgname + ".cfg", {}, "C06_" + cfgname, workers=6, timeout=1500)
            require_tlc_ok(st_x, xlog, cfgname)
            xst[cfgname] = st_x
        extra_cov = {"extraction_in_rewriting_runs": {"recorder": rsum},
                     "operational_model": {"what": "ExtractOp.tla (Extractor::new as a Dijkstra-style work list, ties broken in every possible way) reaches exactly the "
                                                   "classes with a finite term and the least-fixpoint cost on every e-graph with <=3 e-nodes over 3 classes (weighted size), "
                                                   "<=4 e-nodes over 2 classes (weighted depth); termination under weak fairness on <=3 nodes over 2 classes", "tlc": xst}}
    if prop == "C14":
        import rw
        f2, st2, summ2, ndumps = rw.c14_constfold(tier)
        mine += f2
        extra_cov = {"constant_folding": {"tlc_trace": st2, "recorder": summ2, "dumps_checked": ndumps,
                                          "what": "ConstFold analysis (modify hook adds the literal) on recorded rewriting runs of language A: datum = least "
                                                  "fixpoint of make over the dumped e-nodes, class with a value contains the literal, value = model value"}}
    if prop in ("C08", "C12", "C14"):
        import egop
        # C12 runs the full configuration of the tier; C08 (WellFormed) always the small one
        # C12 runs the full configuration of the tier; C08 (WellFormed) always the small one; C14 the universes in which data move
        extra_cov = dict(extra_cov, operational_model=egop.run_tier(tier if prop == "C12" else "quick", tables, prop,
                                                                    only=["U1", "U4", "U6", "U8"] if prop == "C14" and tier == "quick" else None))
    if prop in ("C04", "C05"):
        import egop
        extra_cov = dict(extra_cov, operational_matcher=egop.run_matches(tier, tables, prop,
                                                                       only=["U4", "U13"] if prop == "C05" and tier == "quick" else None))
    others = {}
    for f in findings:
        if f["prop"] != prop:
            others[f["prop"]] = others.get(f["prop"], 0) + 1
    nstates = sum(t[2]["distinct"] for t in tables.values())
    ntrans = sum(t[2]["generated"] for t in tables.values())
    sample_states = []
    for u, t in tables.items():
        uni = t[0]
        for s in t[3]:
            if u in TIERS[tier] and len(s["key"]) == TIERS[tier][u]:
                sample_states.append({"universe": u, "equations": [[uni["texts"][a - 1], uni["texts"][b - 1]]
                                                                   for a, b in (uni["eqs"][e - 1] for e in s["key"])],
                                      "spec_classes": s["ncls"], "spec_slots_of_pool_terms": s["slots"][:6]})
                break
    cov = {
        "states": nstates, "transitions": ntrans,
        "traces_validated_against_impl": sum(s["completed_paths"] for s in summaries),
        "samples": sample_states,
        "evaluations": sum(s["comparisons"] for s in summaries),
        "distinct_nontrivial": sum(nontrivial_states(t[3]) for t in tables.values()),
        "rule": "one TLC state = one set of asserted equations over the universe's term pool; every state is "
                "replayed along all orders x orientations (x namings, x lazy/eager insertion) against the real "
                "EGraph and the whole observation is compared after every call; non-trivial = the closure "
                "merges at least two ground terms",
        "exhaustive": True,
        "tlc": {u: t[2] for u, t in tables.items()},
        "universes": {u: {"N": t[0]["N"], "terms": len(t[0]["terms"]), "equation_pool": len(t[0]["eqs"]),
                          "max_equations": TIERS[tier].get(u, min(len(t[0]["eqs"]), 3 if tier == "quick" else 4))} for u, t in tables.items()},
        "replay": summaries,
        "paths_aborted_by_panics_or_inconsistency": sum(s["paths"] - s["completed_paths"] for s in summaries),
        "findings_attributed_to_other_properties": others,
        "library_variants": variants, "namings": namings,
    }
    cov.update(extra_cov)
    if prop in ("C04", "C05"):
        cov["match_sets"] = {
            "what": "spec/EMatch.tla: for every state TLC computes the complete set of ground matches of every pattern of the pool "
                    "(orbit-least form under the pool bijections that fix the pattern's free slots, admissible = capture avoiding); "
                    "ematch_all's substitutions are grounded, mapped to specification classes and compared as sets: "
                    "reported \\subseteq expected is C05, expected \\subseteq reported is C04 (judged only in states without redundant slots)",
            "patterns": {u: len(pattern_pool(t[0])) for u, t in tables.items()},
            "match_sets_compared": sum(s.get("match_sets_compared", 0) for s in summaries),
            "ground_matches_compared": sum(s.get("ground_matches_compared", 0) for s in summaries),
            "expected_ground_matches": sum(len(m) for t in tables.values() for st_ in t[3] for m in st_.get("mt", [])),
            "states_in_scope_of_C04": sum(1 for t in tables.values() for st_ in t[3] if st_.get("nored", True)),
            "matches_not_groundable_in_pool": sum(s.get("matches_not_groundable_in_pool", 0) for s in summaries)}
    return mine, cov, tables
