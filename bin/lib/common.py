"""Shared machinery of /verif/bin/check: tool runners, known-findings protocol, evidence."""
import json, os, subprocess, sys, time, shutil, hashlib

VERIF = os.path.dirname(os.path.dirname(os.path.dirname(os.path.abspath(__file__))))
SPEC = os.path.join(VERIF, "spec")
HARNESS = os.path.join(VERIF, "harness")
OUT = os.path.join(VERIF, "out")
os.makedirs(os.path.join(OUT, "tlc"), exist_ok=True)      # recorders write there before any TLC run has created it
EVID = os.path.join(VERIF, "evidence")
UNIV = os.path.join(VERIF, "universes")

sys.path.insert(0, os.path.dirname(os.path.abspath(__file__)))
import tlcout


class ToolError(Exception):
    pass


def log(*a):
    print("[check]", *a, file=sys.stderr, flush=True)


def seed():
    try:
        return int(os.environ.get("VERIF_SEED", "0"))
    except ValueError:
        return 0


def ncpu():
    return max(2, min(16, os.cpu_count() or 4))


# --------------------------------------------------------------------------------------------
# cargo
# --------------------------------------------------------------------------------------------
_built = {}


def cargo_build(variant="default"):
    """build the harness (and thereby /repo's current working tree) in the given library
    variant; returns the directory holding the binaries."""
    if variant in _built:
        return _built[variant]
    feats = {"default": [], "checks": ["checks"], "expl": ["explanations"],
             "expl+checks": ["explanations", "checks"]}[variant]
    tdir = os.path.join(HARNESS, "target", variant)
    cmd = ["cargo", "build", "--release", "--offline", "--target-dir", tdir]
    if feats:
        cmd += ["--features", ",".join(feats)]
    env = dict(os.environ, CARGO_NET_OFFLINE="true")
    t0 = time.time()
    p = subprocess.run(cmd, cwd=HARNESS, env=env, stdout=subprocess.PIPE, stderr=subprocess.STDOUT, text=True)
    if p.returncode != 0:
        sys.stderr.write(p.stdout[-6000:])
        raise ToolError("cargo build failed for variant %s (the tree under /repo does not compile?)" % variant)
    log("built harness variant=%s in %.1fs" % (variant, time.time() - t0))
    _built[variant] = os.path.join(tdir, "release")
    return _built[variant]


def run_bin(variant, name, args, env=None, timeout=1500, stdin=None):
    d = cargo_build(variant)
    e = dict(os.environ)
    e["VERIF_SEED"] = str(seed())
    if env:
        e.update({k: str(v) for k, v in env.items()})
    p = subprocess.run([os.path.join(d, name)] + [str(a) for a in args], env=e, stdout=subprocess.PIPE,
                       stderr=subprocess.PIPE, text=True, timeout=timeout, input=stdin)
    if p.returncode == 3 and '"hang":true' in p.stdout.replace(" ", ""):
        return p.stdout           # watchdog: the output holds the "does not terminate" finding
    if p.returncode != 0:
        sys.stderr.write(p.stderr[-4000:])
        raise ToolError("%s exited with %d" % (name, p.returncode))
    return p.stdout


def jsonl(text):
    return [json.loads(l) for l in text.splitlines() if l.startswith("{")]


# --------------------------------------------------------------------------------------------
# TLC
# --------------------------------------------------------------------------------------------
def run_tlc(module, cfg, env, tag, workers=None, timeout=1800, extra=(), simulate=None, java_opts=None):
    """run TLC on spec/<module>.tla with spec/<cfg>; returns (logpath, stats)."""
    os.makedirs(os.path.join(OUT, "tlc"), exist_ok=True)
    meta = os.path.join(OUT, "tlc", tag + ".meta")
    logp = os.path.join(OUT, "tlc", tag + ".log")
    shutil.rmtree(meta, ignore_errors=True)
    cmd = ["timeout", str(timeout), "tlc", "-workers", str(workers or ncpu()), "-metadir", meta,
           "-cleanup", "-noGenerateSpecTE", "-config", cfg]
    if simulate:
        cmd += ["-simulate", simulate]
    cmd += list(extra) + [module + ".tla"]
    e = dict(os.environ)
    e.update({k: str(v) for k, v in env.items()})
    if java_opts:
        e["JAVA_TOOL_OPTIONS"] = java_opts
    t0 = time.time()
    with open(logp, "w") as f:
        p = subprocess.run(cmd, cwd=SPEC, env=e, stdout=f, stderr=subprocess.STDOUT)
    shutil.rmtree(meta, ignore_errors=True)
    st = tlcout.stats(logp)
    st["wall_s"] = round(time.time() - t0, 1)
    st["rc"] = p.returncode
    if p.returncode == 124:
        raise ToolError("TLC timed out on %s (%s)" % (module, tag))
    return logp, st


def require_tlc_ok(st, logp, what):
    if not st["ok"]:
        tail = "".join(open(logp, errors="replace").readlines()[-40:])
        sys.stderr.write(tail)
        raise ToolError("TLC did not complete cleanly on %s: the SPECIFICATION's own invariants fail or the "
                        "model is broken (this is a tool error, not a property violation): %s" % (what, st.get("error")))


# --------------------------------------------------------------------------------------------
# known findings
# --------------------------------------------------------------------------------------------
def load_known():
    p = os.path.join(VERIF, "known_findings.json")
    if not os.path.exists(p):
        return {"findings": [], "fixed": []}
    return json.load(open(p))


_src_cache = {}


def site_fn(site):
    """'src/group/mod.rs:167' -> 'src/group/mod.rs::contains' (enclosing fn in /repo's current
    tree): robust against line shifts caused by unrelated edits."""
    import re
    if not site or ":" not in site:
        return site or ""
    f, _, ln = site.rpartition(":")
    try:
        ln = int(ln)
    except ValueError:
        return site
    if f not in _src_cache:
        try:
            _src_cache[f] = open(os.path.join("/repo", f), errors="replace").read().splitlines()
        except OSError:
            _src_cache[f] = []
    name = "?"
    for l in _src_cache[f][:ln]:
        m = re.search(r"\bfn\s+([A-Za-z_0-9]+)", l)
        if m:
            name = m.group(1)
    return "%s::%s" % (f, name)


def match_known(prop, finding, triggers):
    """a finding is known iff an entry of known_findings.json for this property matches its
    `what`, its panic `site` (if the entry names one) and the entry's trigger predicate holds
    on this history."""
    for k in load_known().get("findings", []):
        if k["property"] != prop:
            continue
        if "what" in k and k["what"] != finding.get("what"):
            continue
        if "what_in" in k and finding.get("what") not in k["what_in"]:
            continue
        if "site" in k and k["site"] != site_fn(finding.get("site")):
            continue
        if "msg_contains" in k and k["msg_contains"] not in json.dumps(finding.get("detail", {})):
            continue
        trig = k.get("trigger")
        if trig:
            fn = triggers.get(trig)
            if fn is None or not fn(finding):
                continue
        return k
    return None


# --------------------------------------------------------------------------------------------
# result / evidence
# --------------------------------------------------------------------------------------------
def finish(prop, tier, t0, findings, coverage, triggers=None, assumptions=None, level="model_checking"):
    """classify findings (known / new), write replay files and the evidence file, print the
    protocol lines and exit."""
    triggers = triggers or {}
    outdir = os.path.join(OUT, prop)
    shutil.rmtree(outdir, ignore_errors=True)
    os.makedirs(outdir, exist_ok=True)
    os.makedirs(EVID, exist_ok=True)
    known_hits = {}
    violations = []
    for f in findings:
        k = match_known(prop, f, triggers)
        if k is not None:
            known_hits.setdefault(k["id"], [k, 0])
            known_hits[k["id"]][1] += 1
        else:
            violations.append(f)
    for kid, (k, cnt) in sorted(known_hits.items()):
        print("KNOWN-FINDING: property=%s %s: %s (%d occurrences in this run)" % (prop, kid, k["describe"], cnt))
    # one VIOLATION line per distinct (what, site), at most 10 replay files
    seen = {}
    for f in violations:
        key = (f.get("what"), site_fn(f.get("site")))
        seen.setdefault(key, []).append(f)
    nfile = 0
    for key, fs in seen.items():
        if nfile >= 10:
            break
        nfile += 1
        path = os.path.join(outdir, "violation_%02d.json" % nfile)
        json.dump({"property": prop, "count": len(fs), "first": fs[0], "more": fs[1:5]}, open(path, "w"), indent=1)
        print("VIOLATION property=%s replay=%s" % (prop, path))
        log("  %s | %s | %s" % (key[0], key[1], json.dumps(fs[0].get("detail"))[:400]))
    coverage = dict(coverage)
    coverage["known_findings_seen"] = {k: v[1] for k, v in known_hits.items()}
    ev = {"property_id": prop, "tier": tier, "seed": seed(), "level": level, "coverage": coverage,
          "assumptions": assumptions or [], "wall_s": round(time.time() - t0, 1), "violations": len(violations)}
    json.dump(ev, open(os.path.join(EVID, prop + ".json"), "w"), indent=1)
    log("%s %s: %d violations, %d known-finding occurrences, %.1fs" %
        (prop, tier, len(violations), sum(v[1] for v in known_hits.values()), time.time() - t0))
    sys.exit(1 if violations else 0)


# --------------------------------------------------------------------------------------------
# generated root modules: universe JSON -> TLA+ literals
# --------------------------------------------------------------------------------------------
class Raw(str):
    """TLA+ source text used verbatim"""


def tla_set(xs):
    return Raw("{" + ", ".join(tla_value(x) for x in xs) + "}")


def tla_value(v):
    if isinstance(v, Raw):
        return str(v)
    if isinstance(v, bool):
        return "TRUE" if v else "FALSE"
    if isinstance(v, int):
        return str(v)
    if isinstance(v, str):
        return json.dumps(v)
    if isinstance(v, list):
        return "<<" + ", ".join(tla_value(x) for x in v) + ">>"
    if isinstance(v, dict):
        if not v:
            return "<<>>"
        import re as _re
        if all(_re.match(r"^[A-Za-z_][A-Za-z0-9_]*$", k) for k in v):
            return "[" + ", ".join("%s |-> %s" % (k, tla_value(x)) for k, x in v.items()) + "]"
        return "(" + " @@ ".join("%s :> %s" % (json.dumps(k), tla_value(x)) for k, x in v.items()) + ")"
    raise ValueError(v)


def gen_root_module(tag, base_module, defs, cfg_text):
    """write out/tlc/<tag>/<Root>.tla (EXTENDS base_module, plus literal definitions) and its
    cfg; returns (dir, rootname).  TLC finds the hand-written modules through TLA-Library."""
    d = os.path.join(OUT, "tlc", tag)
    shutil.rmtree(d, ignore_errors=True)
    os.makedirs(d)
    root = "Root_" + base_module
    lines = ["---- MODULE %s ----" % root, "EXTENDS " + base_module, ""]
    for k, v in defs.items():
        lines.append("%s == %s" % (k, tla_value(v)))
    lines.append("====")
    open(os.path.join(d, root + ".tla"), "w").write("\n".join(lines) + "\n")
    open(os.path.join(d, root + ".cfg"), "w").write(cfg_text)
    return d, root


def run_tlc_root(tag, base_module, defs, cfg_text, workers=None, timeout=1800, simulate=None, env=None,
                 deque=False, xss=False, extra=()):
    d, root = gen_root_module(tag, base_module, defs, cfg_text)
    logp = os.path.join(d, "tlc.log")
    meta = os.path.join(d, "meta")
    cmd = ["timeout", str(timeout), "tlc", "-workers", str(workers or ncpu()), "-metadir", meta,
           "-cleanup", "-noGenerateSpecTE", "-config", root + ".cfg"]
    if simulate:
        cmd += ["-simulate", simulate]
    cmd += list(extra) + [root + ".tla"]
    e = dict(os.environ)
    if env:
        e.update({k: str(v) for k, v in env.items()})
    jo = "-DTLA-Library=" + SPEC
    if xss:
        jo += " -Xss1g"
        e["JDK_JAVA_OPTIONS"] = "-Xss1g"      # the main thread (initial states) gets its stack size from the launcher
    if deque:
        jo += " -Dtlc2.tool.queue.IStateQueue=StateDeque"
    e["JAVA_TOOL_OPTIONS"] = jo
    t0 = time.time()
    with open(logp, "w") as f:
        p = subprocess.run(cmd, cwd=d, env=e, stdout=f, stderr=subprocess.STDOUT)
    shutil.rmtree(meta, ignore_errors=True)
    st = tlcout.stats(logp)
    st["wall_s"] = round(time.time() - t0, 1)
    st["rc"] = p.returncode
    if p.returncode == 124:
        raise ToolError("TLC timed out on %s (%s)" % (base_module, tag))
    return logp, st
