"""Design-level refinement check: the operational model spec/EGraphOp.tla against the
congruence of spec/SlottedCC.tla (tables of the MC_CC run over the same universe).
A failure here is a disagreement between two of OUR models (tool error), never a violation
of the code: the code is bound to SlottedCC by cc_replay, and EGraphOp is bound to SlottedCC
by this check."""
import json, os, sys, time
from common import *
import tlcout


def pool_index(us, terms):
    """index (1-based) in the ground universe `us` of every pool term"""
    key = lambda t: json.dumps(t, sort_keys=True)
    pos = {key(t): i + 1 for i, t in enumerate(us)}
    return [pos[key(t)] for t in terms]


def expected_records(uni, us, states):
    recs = []
    for s in states:
        recs.append({"key": s["key"], "lab": s["plab"],
                     "slots": s["slots"], "syms": s["syms"], "pleaf": s["pleaf"], "psize": s["psize"]})
    return recs


def run_one(tag, uni, us, states, maxeqs, policy, eager, workers=4, timeout=1500, analysis="none"):
    cfg = open(os.path.join(SPEC, "MC_EGraphOp.cfg")).read()
    defs = {"MCOpTermPool": uni["terms"], "MCOpEqPool": uni["eqs"], "MCOpInsBase": tla_set(uni["base"]),
            "MCOpMaxEqs": maxeqs, "MCExpected": tla_set(expected_records(uni, us, states)),
            "MCOpEager": eager, "MCPolicy": policy, "MCAnalysis": analysis}
    logp, st = run_tlc_root(tag, "MC_EGraphOp", defs, cfg, workers=workers, timeout=timeout, xss=True)
    bad = list(tlcout.tagged_lines(logp, "OPBAD"))
    return logp, st, bad


def run_tier(tier, tables, tag, only=None):
    """design-level refinement EGraphOp => SlottedCC over the hand-written and the seeded random universes; returns a
    coverage dict; raises ToolError when the two models disagree"""
    import concurrent.futures
    jobs = []
    for u, (uni, tpath, st, states, upath) in tables.items():
        if u.endswith("sim") or (only is not None and u not in only):
            continue
        us = json.load(open(tpath))["us"]
        if not u.startswith("U"):          # seeded random universes: small, <=2 (quick) / <=3 (thorough) equations
            top = 2 if tier == "quick" else 3
        else:
            top = 2 if (tier == "thorough" or u in ("U4", "U5")) else 1
        for pol in ("fifo", "lifo"):
            for eager in ((True, False) if tier == "thorough" else (True,)):
                me = top if (pol == "fifo" or tier == "thorough") else 1
                jobs.append((u, uni, us, [s for s in states if len(s["key"]) <= me], me, pol, eager))
    res = {}

    def one(j):
        u, uni, us, sts, me, pol, eager = j
        # the analysis of the model: leaf operators (join = union) with fifo, smallest size (join = min) with lifo
        return j, run_one("%s_egop_%s_%s_%s" % (tag, u, pol, "eager" if eager else "lazy"), uni, us, sts, me, pol, eager,
                          workers=4 if tier == "quick" else 8, timeout=3000, analysis="leaves" if pol == "fifo" else "size")
    t0 = time.time()
    with concurrent.futures.ThreadPoolExecutor(max_workers=4 if tier == "quick" else 2) as ex:
        for j, (logp, st, bad) in ex.map(one, jobs):
            u, _, _, sts, me, pol, eager = j
            require_tlc_ok(st, logp, "MC_EGraphOp/" + u)
            if bad:
                raise ToolError("the operational model EGraphOp.tla disagrees with SlottedCC.tla on %s (%s, %s): %s" %
                                (u, pol, "eager" if eager else "lazy", json.dumps(bad[0])[:400]))
            res["%s/%s/%s/<=%d eqs" % (u, pol, "eager" if eager else "lazy", me)] = {"states": st["distinct"], "transitions": st["generated"], "wall_s": st["wall_s"]}
    log("EGraphOp refines SlottedCC: %d model runs, %d states, %.1fs" % (len(res), sum(r["states"] for r in res.values()), time.time() - t0))
    return {"what": "design level: every reachable quiescent state of the operational model spec/EGraphOp.tla (union-find with slot maps, "
                    "shrink_slots, move_to, handle_pending, determine_self_symmetries; pending list served fifo and lifo) denotes exactly the "
                    "congruence of SlottedCC.tla for the same equations (equalities, slot sets, symmetry groups of all pool terms), "
                    "its analysis data (update_analysis, pending entries of type full / only, join in move_to; leaf operators with fifo, smallest size "
                    "with lifo) are the least fixpoints LeafOps / MinCost(astsize) of SlottedCC.tla, "
                    "satisfies the structural invariants of check.rs and keeps old handles valid",
            "runs": res, "states": sum(r["states"] for r in res.values())}


if __name__ == "__main__":
    # debugging entry: egop.py <universe.json> <table.json> <maxeqs> [policy] [eager]
    uni = json.load(open(sys.argv[1]))
    tab = json.load(open(sys.argv[2]))
    maxeqs = int(sys.argv[3])
    policy = sys.argv[4] if len(sys.argv) > 4 else "fifo"
    eager = (sys.argv[5] == "eager") if len(sys.argv) > 5 else True
    states = [s for s in tab["states"] if len(s["key"]) <= maxeqs]
    logp, st, bad = run_one("egop_dbg", uni, tab["us"], states, maxeqs, policy, eager)
    print(st)
    for b in bad[:10]:
        print(json.dumps(b)[:600])
    if not st["ok"]:
        print("".join(open(logp, errors="replace").readlines()[-60:]))
