"""Design-level refinement check: the operational model spec/EGraphOp.tla against the
congruence of spec/SlottedCC.tla (tables of the MC_CC run over the same universe).
A failure here is a disagreement between two of OUR models (tool error), never a violation
of the code: the code is bound to SlottedCC by cc_replay, and EGraphOp is bound to SlottedCC
by this check."""
import json, os, sys, time
from common import *
import tlcout


def pool_index(us, terms):
    """index (1-based) in the ground universe `us` of every pool term"""
    key = lambda t: json.dumps(t, sort_keys=True)
    pos = {key(t): i + 1 for i, t in enumerate(us)}
    return [pos[key(t)] for t in terms]


NONE_TERM = {"op": "none", "sl": [], "ch": []}


def expected_records(uni, us, states, matches=False):
    recs = []
    for s in states:
        r = {"key": s["key"], "lab": s["plab"],
             "slots": s["slots"], "syms": s["syms"], "pleaf": s["pleaf"], "psize": s["psize"]}
        if matches:
            # expected match sets (EMatch.tla) with every class label replaced by its universe term
            r["mtt"] = [[[us[l - 1] if l else NONE_TERM for l in tup] for tup in pm] for pm in s["mt"]]
            r["nored"] = s["nored"]
        else:
            r["mtt"] = []
            r["nored"] = False
        recs.append(r)
    return recs


def run_one(tag, uni, us, states, maxeqs, policy, eager, workers=4, timeout=1500, analysis="none", pats=None):
    cfg = open(os.path.join(SPEC, "MC_EGraphOp.cfg")).read()
    defs = {"MCOpTermPool": uni["terms"], "MCOpEqPool": uni["eqs"], "MCOpInsBase": tla_set(uni["base"]),
            "MCOpMaxEqs": maxeqs, "MCExpected": tla_set(expected_records(uni, us, states, matches=bool(pats))),
            "MCOpEager": eager, "MCPolicy": policy, "MCAnalysis": analysis,
            "MCOpPatterns": pats or [], "MCOpN": uni["N"]}
    logp, st = run_tlc_root(tag, "MC_EGraphOp", defs, cfg, workers=workers, timeout=timeout, xss=True)
    bad = list(tlcout.tagged_lines(logp, "OPBAD"))
    return logp, st, bad


def run_tier(tier, tables, tag, only=None):
    """design-level refinement EGraphOp => SlottedCC over the hand-written and the seeded random universes; returns a
    coverage dict; raises ToolError when the two models disagree"""
    import concurrent.futures
    jobs = []
    for u, (uni, tpath, st, states, upath) in tables.items():
        if u.endswith("sim") or (only is not None and u not in only):
            continue
        us = json.load(open(tpath))["us"]
        if not u.startswith("U"):          # seeded random universes: small, <=2 (quick) / <=3 (thorough) equations
            top = 2 if tier == "quick" else 3
        else:
            top = 2 if (tier == "thorough" or u in ("U4", "U5")) else 1
        for pol in ("fifo", "lifo"):
            for eager in ((True, False) if tier == "thorough" else (True,)):
                me = top if (pol == "fifo" or tier == "thorough") else 1
                jobs.append((u, uni, us, [s for s in states if len(s["key"]) <= me], me, pol, eager))
    res = {}

    def one(j):
        u, uni, us, sts, me, pol, eager = j
        # the analysis of the model: leaf operators (join = union) with fifo, smallest size (join = min) with lifo
        return j, run_one("%s_egop_%s_%s_%s" % (tag, u, pol, "eager" if eager else "lazy"), uni, us, sts, me, pol, eager,
                          workers=4 if tier == "quick" else 8, timeout=3000, analysis="leaves" if pol == "fifo" else "size")
    t0 = time.time()
    with concurrent.futures.ThreadPoolExecutor(max_workers=4 if tier == "quick" else 2) as ex:
        for j, (logp, st, bad) in ex.map(one, jobs):
            u, _, _, sts, me, pol, eager = j
            require_tlc_ok(st, logp, "MC_EGraphOp/" + u)
            if bad:
                raise ToolError("the operational model EGraphOp.tla disagrees with SlottedCC.tla on %s (%s, %s): %s" %
                                (u, pol, "eager" if eager else "lazy", json.dumps(bad[0])[:400]))
            res["%s/%s/%s/<=%d eqs" % (u, pol, "eager" if eager else "lazy", me)] = {"states": st["distinct"], "transitions": st["generated"], "wall_s": st["wall_s"]}
    log("EGraphOp refines SlottedCC: %d model runs, %d states, %.1fs" % (len(res), sum(r["states"] for r in res.values()), time.time() - t0))
    return {"what": "design level: every reachable quiescent state of the operational model spec/EGraphOp.tla (union-find with slot maps, "
                    "shrink_slots, move_to, handle_pending, determine_self_symmetries; pending list served fifo and lifo) denotes exactly the "
                    "congruence of SlottedCC.tla for the same equations (equalities, slot sets, symmetry groups of all pool terms), "
                    "its analysis data (update_analysis, pending entries of type full / only, join in move_to; leaf operators with fifo, smallest size "
                    "with lifo) are the least fixpoints LeafOps / MinCost(astsize) of SlottedCC.tla, "
                    "satisfies the structural invariants of check.rs and keeps old handles valid",
            "runs": res, "states": sum(r["states"] for r in res.values())}


MATCH_UNIVERSES = {"quick": {"U1": 1, "U3": 1, "U4": 1, "U11": 1, "U13": 2},
                   # (U1 with two equations: 562 states x 29 patterns did not finish in 25 minutes)
                   "thorough": {"U1": 1, "U3": 1, "U4": 2, "U5": 2, "U7": 2, "U10": 2, "U11": 2, "U13": 2, "U14": 2}}


def run_matches(tier, tables, tag, only=None):
    """design-level refinement EMatchOp => EMatch: on every reachable quiescent state of EGraphOp (lazy insertion, fifo) that is in
    the scope of the comparison the operational e-matcher computes exactly the declarative match sets that the MC_CC run emitted
    (and that the real ematch_all is compared with).  A disagreement is a tool error."""
    import concurrent.futures
    import cc
    sys.path.insert(0, UNIV)
    import patterns
    jobs = [(u, me) for u, me in MATCH_UNIVERSES[tier].items() if u in tables and (only is None or u in only)]
    res = {}

    def one(j):
        u, me = j
        uni, tpath, st, states, upath = tables[u]
        us = json.load(open(tpath))["us"]
        pats = [patterns.parse_pattern(p) for p in cc.pattern_pool(uni)]
        sts = [s for s in states if len(s["key"]) <= me]
        return j, len(pats), sum(1 for s in sts if s["nored"]), sum(len(m) for s in sts if s["nored"] for m in s["mt"]), \
            run_one("%s_ematchop_%s" % (tag, u), uni, us, sts, me, "fifo", False, workers=4, timeout=3000, pats=pats)
    t0 = time.time()
    with concurrent.futures.ThreadPoolExecutor(max_workers=4) as ex:
        for (u, me), npat, nin, nexp, (logp, st, bad) in ex.map(one, jobs):
            require_tlc_ok(st, logp, "MC_EGraphOp(matches)/" + u)
            if bad:
                raise ToolError("the operational e-matcher EMatchOp.tla disagrees with EMatch.tla on %s: %s" % (u, json.dumps(bad[0])[:400]))
            res["%s/<=%d eqs" % (u, me)] = {"states": st["distinct"], "states_in_scope": nin, "patterns": npat,
                                           "declarative_matches_in_scope": nexp, "wall_s": st["wall_s"]}
    log("EMatchOp refines EMatch: %d model runs, %d states, %.1fs" % (len(res), sum(r["states"] for r in res.values()), time.time() - t0))
    return {"what": "design level: on every reachable quiescent state of the operational e-graph model (spec/EGraphOp.tla, lazy insertion) "
                    "the operational e-matcher spec/EMatchOp.tla (enodes_applied, ematch_impl, ematch_node with group variants and the "
                    "partial slot bijection, final_subst, ematch_all) computes exactly the declarative match sets of spec/EMatch.tla: every "
                    "computed substitution, grounded in the name pool, is a member, and every member is computed (states without redundant slots)",
            "runs": res, "states": sum(r["states"] for r in res.values())}


def _fv(t, bound=()):
    out = {x for x in t["sl"] if x not in bound}
    for c in t["ch"]:
        out |= _fv(c["t"], tuple(bound) + tuple(c["bd"]))
    return out


def run_apply(tier, tabs, tag):
    """design-level C04: spec/ApplyOp.tla (pattern_subst, union_instantiations, apply_rewrites over the operational e-matcher) makes every
    planted instance fire whose left side the declarative specification calls represented - on every reachable quiescent state of
    EGraphOp over the fire universes (tabs: the MC_Fire tables of this run)"""
    import concurrent.futures
    cfg = open(os.path.join(SPEC, "MC_ApplyOp.cfg")).read()
    res = {}

    def one(t):
        name, uni, tpath, st, states = t
        us = json.load(open(tpath))["us"]
        pui = pool_index(us, uni["terms"])
        recs = []
        for s in states:
            r = {"key": s["key"], "lab": s["plab"], "slots": s["slots"], "syms": s["syms"], "pleaf": s["pleaf"], "psize": s["psize"],
                 "mtt": [], "nored": False}
            r["rep"] = [s["lab"][i - 1] != 0 for i in pui]
            r["scope"] = all((not r["rep"][ti]) or len(s["slots"][ti]) == len(_fv(uni["terms"][ti])) for ti in range(len(uni["terms"])))
            recs.append(r)
        me = max(len(s["key"]) for s in states)
        defs = {"MCOpTermPool": uni["terms"], "MCOpEqPool": uni["eqs"], "MCOpInsBase": tla_set(uni["base"]),
                "MCOpMaxEqs": me, "MCExpected": tla_set(recs), "MCOpEager": False, "MCPolicy": "fifo", "MCAnalysis": "none",
                "MCOpPatterns": [], "MCOpN": uni["N"], "MCOpRule": {"l": uni["rule"]["l"], "r": uni["rule"]["r"]},
                "MCOpInstances": [{"l": i["l"], "r": i["r"]} for i in uni["instances"]]}
        logp, st2 = run_tlc_root("%s_applyop_%s" % (tag, name), "MC_ApplyOp", defs, cfg, workers=4, timeout=3000, xss=True)
        return name, logp, st2, list(tlcout.tagged_lines(logp, "OPBAD")), sum(1 for r in recs if r["scope"]), \
            sum(sum(1 for i in uni["instances"] if r["rep"][i["l"] - 1]) for r in recs if r["scope"])
    t0 = time.time()
    with concurrent.futures.ThreadPoolExecutor(max_workers=4) as ex:
        for name, logp, st2, bad, nscope, ninst in ex.map(one, tabs):
            require_tlc_ok(st2, logp, "MC_ApplyOp/" + name)
            if bad:
                raise ToolError("the operational model ApplyOp.tla disagrees with MC_Fire on %s: %s" % (name, json.dumps(bad[0])[:400]))
            res[name] = {"states": st2["distinct"], "states_in_scope": nscope, "instances_that_must_fire": ninst, "wall_s": st2["wall_s"]}
    log("ApplyOp fires the planted instances: %d model runs, %d states, %.1fs" % (len(res), sum(r["states"] for r in res.values()), time.time() - t0))
    return {"what": "design level: spec/ApplyOp.tla (pattern_subst, union_instantiations, apply_rewrites: all searchers - the operational "
                    "e-matcher EMatchOp.tla - before any applier) on every reachable quiescent state of spec/EGraphOp.tla over the fire universes: "
                    "after one call every planted instance whose left side SlottedCC calls represented has its right side represented and "
                    "equal; the state stays well-formed and keeps refining SlottedCC before the call",
            "runs": res, "states": sum(r["states"] for r in res.values())}


if __name__ == "__main__":
    # debugging entry: egop.py <universe.json> <table.json> <maxeqs> [policy] [eager]
    uni = json.load(open(sys.argv[1]))
    tab = json.load(open(sys.argv[2]))
    maxeqs = int(sys.argv[3])
    policy = sys.argv[4] if len(sys.argv) > 4 else "fifo"
    eager = (sys.argv[5] == "eager") if len(sys.argv) > 5 else True
    states = [s for s in tab["states"] if len(s["key"]) <= maxeqs]
    logp, st, bad = run_one("egop_dbg", uni, tab["us"], states, maxeqs, policy, eager)
    print(st)
    for b in bad[:10]:
        print(json.dumps(b)[:600])
    if not st["ok"]:
        print("".join(open(logp, errors="replace").readlines()[-60:]))
