"""C07: explanations re-checked node by node by Proofs.tla (direction implementation -> specification)."""
import json, os, time
from common import *
import tlcout, cc


def _fv(t):
    s = set(t["sl"])
    for c in t["ch"]:
        s |= _fv(c["t"]) - set(c["bd"])
    return s


def plain_states(uni, states):
    """indices of the states in which the SPECIFICATION derives no redundant slot and no symmetry for any pool term: there a flat
    explanation (a chain of whole terms, to_flat_string) can spell every step; elsewhere it cannot (known finding D23)"""
    nfv = [len(_fv(t)) for t in uni["terms"]]
    return [i for i, s in enumerate(states) if all(x == 1 for x in s["syms"]) and all(len(s["slots"][j]) == nfv[j] for j in range(len(nfv)))]


def run_c07(tier):
    t0 = time.time()
    prop = "C07"
    tables = cc.cc_tables(tier, prop)
    findings, summs, tstats, nproofs, nnodes, sample = [], [], {}, 0, 0, None
    nflat = nflat_steps = nflat_deep = nflat_back = nflat_all = nflat_plain = 0
    rules_seen = {}
    maxpairs = 6 if tier == "quick" else 12
    for variant in (["expl"] if tier == "quick" else ["expl", "expl+checks"]):
        for u, (uni, tpath, st, states, upath) in tables.items():
            trace = os.path.join(OUT, "tlc", "%s_%s_%s.ndjson" % (prop, u, variant.replace("+", "_")))
            recs = jsonl(run_bin(variant, "ex_record", [upath, tpath, trace, maxpairs], env={"VERIF_FLAT_PLAIN": json.dumps(plain_states(uni, states))}))
            summ = [r for r in recs if r["kind"] == "summary"][0]
            for r in recs:
                if r["kind"] == "finding" and r["prop"] in ("*", prop):
                    r["prop"] = prop
                    r["variant"] = variant
                    if "src/" in r.get("site", ""):
                        r["site"] = r["site"][r["site"].index("src/"):]       # relative to the repository
                    findings.append(r)
            if summ.get("hang"):
                summ.update({"universe": u, "states": 0, "proofs": 0, "explain_panics": 0, "histories_aborted_by_build_panics": 0})
                open(trace, "a").close()
            summ["variant"] = variant
            summs.append(summ)
            cfg = open(os.path.join(SPEC, "TraceProofs.cfg")).read()
            logp, tst = run_tlc_root("%s_trace_%s_%s" % (prop, u, variant.replace("+", "_")), "TraceProofs", {}, cfg, workers=1,
                                     env={"VERIF_TRACE": trace}, xss=True, deque=True, timeout=3000)
            if not tst["ok"]:
                sys.stderr.write(open(logp, errors="replace").read()[-3000:])
                raise ToolError("TraceProofs did not consume the whole trace")
            tstats[u + "/" + variant] = tst
            lines = open(trace).read().splitlines()
            for l in lines:
                e = json.loads(l)
                if e["ev"] != "proof":
                    continue
                nproofs += 1
                nnodes += len(e["dag"])
                for nd in e["dag"]:
                    rules_seen[nd["rule"]] = rules_seen.get(nd["rule"], 0) + 1
                if sample is None and len(e["dag"]) >= 4:
                    sample = {"asserted": e["asserted"], "query": e["query"], "proof": [{k: nd[k] for k in ("id", "rule", "prem", "just")} for nd in e["dag"]]}
            for b in tlcout.tagged_lines(logp, "PROOFBAD"):
                e = json.loads(lines[b["i"] - 1])
                eqs = ["%s = %s [%s]" % (json.dumps(a["a"]), json.dumps(a["b"]), a["j"]) for a in e["asserted"]]
                if b["verdict"] == "panic":
                    findings.append({"kind": "finding", "prop": prop, "what": "explain_equivalence panics", "site": e["site"], "variant": variant,
                                     "universe": u, "asserted_syms3": any(len(a["a"]["sl"]) >= 3 for a in e["asserted"]),
                                     "detail": {"msg": e["msg"], "asserted": eqs, "query": e["query"], "naming": e["naming"]}})
                else:
                    bad_nodes = [e["dag"][n - 1] for n in b["nodes"][:2]]
                    findings.append({"kind": "finding", "prop": prop, "site": "", "variant": variant, "universe": u,
                                     "what": "proof step is not a correct use of its rule" if b["verdict"] == "step" else "proof does not conclude the queried equation",
                                     "detail": {"asserted": eqs, "query": e["query"], "bad_nodes": bad_nodes,
                                                "premises": [e["dag"][p - 1] for nd in bad_nodes for p in nd["prem"]][:4]}})
            for b in tlcout.tagged_lines(logp, "FLATBAD"):
                e = json.loads(lines[b["i"] - 1])
                eqs = ["%s = %s [%s]" % (json.dumps(a["a"]), json.dumps(a["b"]), a["j"]) for a in e["asserted"]]
                what = {"panic": "to_flat_string panics", "hang": "to_flat_string does not terminate", "unreadable": "flat explanation is not a chain of terms with one rewrite marker per line",
                        "step": "flat explanation: a step is not an application of the named equation at the marked position",
                        "conclusion": "flat explanation does not lead from the queried left side to the queried right side"}[b["verdict"]]
                site = ""
                if b["verdict"] == "panic" and " at " in e["flat_msg"]:
                    site = e["flat_msg"].rsplit(" at ", 1)[1]
                    site = site[site.index("src/"):] if "src/" in site else site
                fl = e["flat"]
                terms = [fl["start"]] + [st["dst"] for st in fl["steps"]]
                bad = [{"step": i, "from": terms[i - 1], "to": terms[i], "pos": fl["steps"][i - 1]["pos"], "back": fl["steps"][i - 1]["back"],
                        "just": fl["steps"][i - 1]["just"]} for i in b["steps"][:2]]
                findings.append({"kind": "finding", "prop": prop, "site": site, "variant": variant, "universe": u, "what": what, "flat": True, "plain": e["plain"],
                                 "detail": {"asserted": eqs, "query": e["query"], "msg": e["flat_msg"][:600], "bad_steps": bad,
                                            "chain": terms if b["verdict"] == "conclusion" else None, "naming": e["naming"]}})
            for l in lines:
                e = json.loads(l)
                if e["ev"] == "flat":
                    nflat_all += 1
                    nflat_plain += 1 if e["plain"] else 0
                if e.get("flat_status") == "ok":
                    nflat += 1
                    nflat_steps += len(e["flat"]["steps"])
                    nflat_deep += sum(1 for st in e["flat"]["steps"] if len(st["pos"]) >= 1)
                    nflat_back += sum(1 for st in e["flat"]["steps"] if st["back"])
    if set(rules_seen) < {"explicit", "sym", "trans", "cong"}:
        raise ToolError("recorded proofs do not exercise all proof rules: %s" % rules_seen)
    cov = {"states": sum(t[2]["distinct"] for t in tables.values()) + sum(s["distinct"] for s in tstats.values()),
           "transitions": sum(t[2]["generated"] for t in tables.values()) + sum(s["generated"] for s in tstats.values()),
           "traces_validated_against_impl": nproofs, "samples": [sample or {"none": True}],
           "evaluations": nnodes, "distinct_nontrivial": sum(v for k, v in rules_seen.items() if k in ("trans", "cong")),
           "rule": "histories = the TLC states of the SlottedCC universes (justified unions on add_syn_expr terms, two orders/orientations, rotating "
                   "namings); for up to %d equal pairs of pool terms per history explain_equivalence is called and the whole proof DAG re-checked node by "
                   "node by Proofs.tla (refl/sym/trans/cong up to renamings injective per side, explicit leaves = asserted equations with their "
                   "justification, conclusion = query up to injective renaming); non-trivial = transitivity and congruence nodes" % maxpairs,
           "exhaustive": False, "proof_rules_seen": rules_seen,
           "flat_explanations": {"recorded": nflat_all, "in_plain_states": nflat_plain, "chains_read": nflat, "steps": nflat_steps, "steps_below_the_root": nflat_deep, "backward_steps": nflat_back,
                                 "rule": "to_flat_string of every recorded proof: every line after the first is read as the previous term with one subterm "
                                         "rewritten; Proofs.tla (StepAt / FlatConcludes) checks that each step is an instance of the named asserted "
                                         "equation at the marked position and that the chain leads from the queried left to the queried right side"}, "recorder": summs, "tlc_trace": tstats,
           "histories_aborted_by_build_panics": sum(s["histories_aborted_by_build_panics"] for s in summs)}
    finish(prop, tier, t0, findings, cov, triggers={"explanations_and_checks_build": lambda f: f.get("variant") == "expl+checks",
                                                  "flat_explanation_in_a_state_with_redundant_slots_or_symmetries": lambda f: bool(f.get("flat")) and not f.get("plain")}, assumptions=[
        "terms of proof nodes are obtained with the public get_syn_expr; histories that panic while being built (D1/D2) are attributed to C08",
        "leaves from rule applications are not exercised yet (justified unions only)"])
