"""C07: explanations re-checked node by node by Proofs.tla (direction implementation -> specification)."""
import json, os, time
from common import *
import tlcout, cc


def run_c07(tier):
    t0 = time.time()
    prop = "C07"
    tables = cc.cc_tables(tier, prop)
    findings, summs, tstats, nproofs, nnodes, sample = [], [], {}, 0, 0, None
    rules_seen = {}
    maxpairs = 6 if tier == "quick" else 12
    for variant in (["expl"] if tier == "quick" else ["expl", "expl+checks"]):
        for u, (uni, tpath, st, states, upath) in tables.items():
            trace = os.path.join(OUT, "tlc", "%s_%s_%s.ndjson" % (prop, u, variant.replace("+", "_")))
            recs = jsonl(run_bin(variant, "ex_record", [upath, tpath, trace, maxpairs]))
            summ = [r for r in recs if r["kind"] == "summary"][0]
            for r in recs:
                if r["kind"] == "finding" and r["prop"] in ("*", prop):
                    r["prop"] = prop
                    r["variant"] = variant
                    if "src/" in r.get("site", ""):
                        r["site"] = r["site"][r["site"].index("src/"):]       # relative to the repository
                    findings.append(r)
            if summ.get("hang"):
                summ.update({"universe": u, "states": 0, "proofs": 0, "explain_panics": 0, "histories_aborted_by_build_panics": 0})
                open(trace, "a").close()
            summ["variant"] = variant
            summs.append(summ)
            cfg = open(os.path.join(SPEC, "TraceProofs.cfg")).read()
            logp, tst = run_tlc_root("%s_trace_%s_%s" % (prop, u, variant.replace("+", "_")), "TraceProofs", {}, cfg, workers=1,
                                     env={"VERIF_TRACE": trace}, xss=True, deque=True, timeout=3000)
            if not tst["ok"]:
                sys.stderr.write(open(logp, errors="replace").read()[-3000:])
                raise ToolError("TraceProofs did not consume the whole trace")
            tstats[u + "/" + variant] = tst
            lines = open(trace).read().splitlines()
            for l in lines:
                e = json.loads(l)
                nproofs += 1
                nnodes += len(e["dag"])
                for nd in e["dag"]:
                    rules_seen[nd["rule"]] = rules_seen.get(nd["rule"], 0) + 1
                if sample is None and len(e["dag"]) >= 4:
                    sample = {"asserted": e["asserted"], "query": e["query"], "proof": [{k: nd[k] for k in ("id", "rule", "prem", "just")} for nd in e["dag"]]}
            for b in tlcout.tagged_lines(logp, "PROOFBAD"):
                e = json.loads(lines[b["i"] - 1])
                eqs = ["%s = %s [%s]" % (json.dumps(a["a"]), json.dumps(a["b"]), a["j"]) for a in e["asserted"]]
                if b["verdict"] == "panic":
                    findings.append({"kind": "finding", "prop": prop, "what": "explain_equivalence panics", "site": e["site"], "variant": variant,
                                     "universe": u, "asserted_syms3": any(len(a["a"]["sl"]) >= 3 for a in e["asserted"]),
                                     "detail": {"msg": e["msg"], "asserted": eqs, "query": e["query"], "naming": e["naming"]}})
                else:
                    bad_nodes = [e["dag"][n - 1] for n in b["nodes"][:2]]
                    findings.append({"kind": "finding", "prop": prop, "site": "", "variant": variant, "universe": u,
                                     "what": "proof step is not a correct use of its rule" if b["verdict"] == "step" else "proof does not conclude the queried equation",
                                     "detail": {"asserted": eqs, "query": e["query"], "bad_nodes": bad_nodes,
                                                "premises": [e["dag"][p - 1] for nd in bad_nodes for p in nd["prem"]][:4]}})
    if set(rules_seen) < {"explicit", "sym", "trans", "cong"}:
        raise ToolError("recorded proofs do not exercise all proof rules: %s" % rules_seen)
    cov = {"states": sum(t[2]["distinct"] for t in tables.values()) + sum(s["distinct"] for s in tstats.values()),
           "transitions": sum(t[2]["generated"] for t in tables.values()) + sum(s["generated"] for s in tstats.values()),
           "traces_validated_against_impl": nproofs, "samples": [sample or {"none": True}],
           "evaluations": nnodes, "distinct_nontrivial": sum(v for k, v in rules_seen.items() if k in ("trans", "cong")),
           "rule": "histories = the TLC states of the SlottedCC universes (justified unions on add_syn_expr terms, two orders/orientations, rotating "
                   "namings); for up to %d equal pairs of pool terms per history explain_equivalence is called and the whole proof DAG re-checked node by "
                   "node by Proofs.tla (refl/sym/trans/cong up to renamings injective per side, explicit leaves = asserted equations with their "
                   "justification, conclusion = query up to injective renaming); non-trivial = transitivity and congruence nodes" % maxpairs,
           "exhaustive": False, "proof_rules_seen": rules_seen, "recorder": summs, "tlc_trace": tstats,
           "histories_aborted_by_build_panics": sum(s["histories_aborted_by_build_panics"] for s in summs)}
    finish(prop, tier, t0, findings, cov, triggers={"explanations_and_checks_build": lambda f: f.get("variant") == "expl+checks"}, assumptions=[
        "terms of proof nodes are obtained with the public get_syn_expr; histories that panic while being built (D1/D2) are attributed to C08",
        "leaves from rule applications are not exercised yet (justified unions only)"])
