"""Checks about rewriting: C04 (planted instances fire), C03/C14/C15 (recorded rewrite runs)."""
import json, os, time, concurrent.futures
from common import *
import tlcout

FIRE = ["F_hcomm", "F_hidem", "F_gg", "F_hf", "F_lamh", "F_glam", "F_hag", "F_fswap"]


def fire_table(name, maxeqs, tag):
    cfg = open(os.path.join(SPEC, "MC_Fire.cfg")).read()
    uni = json.load(open(os.path.join(UNIV, name + ".json")))
    insts = [{"sigma": i["sigma"], "rho": i["rho"], "l": i["l"], "r": i["r"]} for i in uni["instances"]]
    defs = {"MCN": uni["N"], "MCTermPool": uni["terms"], "MCEqPool": uni["eqs"], "MCMaxEqs": maxeqs,
            "MCInsBase": tla_set(uni["base"]), "MCRule": {"l": uni["rule"]["l"], "r": uni["rule"]["r"]}, "MCInstances": insts}
    logp, st = run_tlc_root("%s_%s" % (tag, name), "MC_Fire", defs, cfg, workers=4, timeout=3000)
    require_tlc_ok(st, logp, "MC_Fire/" + name)
    us = list(tlcout.tagged_lines(logp, "UNIVERSE"))[0]
    states = list(tlcout.tagged_lines(logp, "REPLAY"))
    tpath = os.path.join(os.path.dirname(logp), "table.json")
    json.dump({"us": us["us"], "states": states}, open(tpath, "w"))
    log("TLC %s: %d states, universe %d, %.1fs" % (name, st["distinct"], us["n"], st["wall_s"]))
    return name, uni, tpath, st, states


def run_c04(tier):
    t0 = time.time()
    prop = "C04"
    cargo_build("default")
    maxeqs = 2 if tier == "quick" else 3
    with concurrent.futures.ThreadPoolExecutor(max_workers=4) as ex:
        tabs = list(ex.map(lambda n: fire_table(n, maxeqs, prop), FIRE))
    findings, summaries = [], []
    for name, uni, tpath, st, states in tabs:
        recs = jsonl(run_bin("default", "fire_replay", [os.path.join(UNIV, name + ".json"), tpath, ncpu()]))
        summaries += [r for r in recs if r["kind"] == "summary"]
        findings += [r for r in recs if r["kind"] == "finding"]
    u0 = tabs[3][1]
    i0 = u0["instances"][0]
    cov = {"states": sum(t[3]["distinct"] for t in tabs), "transitions": sum(t[3]["generated"] for t in tabs),
           "traces_validated_against_impl": sum(s["runs"] for s in summaries),
           "samples": [{"rule": u0["rule"]["ltext"] + " => " + u0["rule"]["rtext"], "lhs_instance": u0["texts"][i0["l"] - 1],
                        "rhs_instance": u0["texts"][i0["r"] - 1], "planted_variants": [u0["texts"][p - 1] for p in i0["planted"]],
                        "alias_unions": [[u0["texts"][a - 1], u0["texts"][b - 1]] for a, b in u0["eqs"]]}],
           "evaluations": sum(s["instances_checked"] for s in summaries),
           "distinct_nontrivial": sum(s["instances_present_only_up_to_equality"] for s in summaries),
           "rule": "8 rules (repeated variables, free pattern slots, one binder, nested patterns, symmetric children) x planted instances "
                   "(variables replaced by small terms, slots renamed) x every set of <=%d balanced alias unions as TLC state; an instance is "
                   "checked when SlottedCC says its left side is Represented; non-trivial = left side present only up to equality; states with a "
                   "redundant slot (per the specification) are outside the documented scope and skipped" % maxeqs,
           "exhaustive": True, "tlc": {t[0]: t[3] for t in tabs}, "replay": summaries,
           "states_skipped_redundant": sum(s["states_skipped_redundant"] for s in summaries)}
    finish(prop, tier, t0, findings, cov, assumptions=[
        "scope as stated by the property: linear binders, no redundant slots (decided per state by the specification's NonRed)",
        "instances are computed by Terms.Inst in TLC (ASSUME InstancesAgree), representation by SlottedCC's closure"])
