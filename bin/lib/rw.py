"""Checks about rewriting: C04 (planted instances fire), C03/C14/C15 (recorded rewrite runs)."""
import json, os, time, concurrent.futures
from common import *
import tlcout

FIRE = ["F_hcomm", "F_hidem", "F_gg", "F_hf", "F_lamh", "F_glam", "F_hag", "F_fswap", "F_hfp", "F_hfv", "F_hfpb", "F_hav", "F_haf", "F_hidem4"]


def fire_table(name, maxeqs, tag):
    cfg = open(os.path.join(SPEC, "MC_Fire.cfg")).read()
    uni = json.load(open(os.path.join(UNIV, name + ".json")))
    insts = [{"sigma": i["sigma"], "rho": i["rho"], "l": i["l"], "r": i["r"]} for i in uni["instances"]]
    defs = {"MCN": uni["N"], "MCTermPool": uni["terms"], "MCEqPool": uni["eqs"], "MCMaxEqs": maxeqs,
            "MCInsBase": tla_set(uni["base"]), "MCPatterns": [], "MCRule": {"l": uni["rule"]["l"], "r": uni["rule"]["r"]}, "MCInstances": insts}
    logp, st = run_tlc_root("%s_%s" % (tag, name), "MC_Fire", defs, cfg, workers=4, timeout=3000)
    require_tlc_ok(st, logp, "MC_Fire/" + name)
    us = list(tlcout.tagged_lines(logp, "UNIVERSE"))[0]
    states = list(tlcout.tagged_lines(logp, "REPLAY"))
    tpath = os.path.join(os.path.dirname(logp), "table.json")
    json.dump({"us": us["us"], "states": states}, open(tpath, "w"))
    log("TLC %s: %d states, universe %d, %.1fs" % (name, st["distinct"], us["n"], st["wall_s"]))
    return name, uni, tpath, st, states


def run_c04(tier):
    t0 = time.time()
    prop = "C04"
    cargo_build("default")
    maxeqs = 2 if tier == "quick" else 3
    with concurrent.futures.ThreadPoolExecutor(max_workers=4) as ex:
        tabs = list(ex.map(lambda n: fire_table(n, maxeqs, prop), FIRE))
    findings, summaries = [], []
    for name, uni, tpath, st, states in tabs:
        recs = jsonl(run_bin("default", "fire_replay", [os.path.join(UNIV, name + ".json"), tpath, ncpu()]))
        for r in recs:
            if r["kind"] == "summary" and r.get("hang"):
                r.update({"universe": name, "states": 0, "runs": 0, "states_skipped_redundant": 0, "instances_checked": 0,
                          "instances_present_only_up_to_equality": 0, "panics": 0, "findings": 1})
            if r["kind"] == "finding" and r["prop"] == "*":
                r["prop"] = prop
        summaries += [r for r in recs if r["kind"] == "summary"]
        findings += [r for r in recs if r["kind"] == "finding"]
    u0 = [t for t in tabs if t[0] == 'F_hf'][0][1]
    i0 = u0["instances"][0]
    cov = {"states": sum(t[3]["distinct"] for t in tabs), "transitions": sum(t[3]["generated"] for t in tabs),
           "traces_validated_against_impl": sum(s["runs"] for s in summaries),
           "samples": [{"rule": u0["rule"]["ltext"] + " => " + u0["rule"]["rtext"], "lhs_instance": u0["texts"][i0["l"] - 1],
                        "rhs_instance": u0["texts"][i0["r"] - 1], "planted_variants": [u0["texts"][p - 1] for p in i0["planted"]],
                        "alias_unions": [[u0["texts"][a - 1], u0["texts"][b - 1]] for a, b in u0["eqs"]]}],
           "evaluations": sum(s["instances_checked"] for s in summaries),
           "distinct_nontrivial": sum(s["instances_present_only_up_to_equality"] for s in summaries),
           "rule": "8 rules (repeated variables, free pattern slots, one binder, nested patterns, symmetric children) x planted instances "
                   "(variables replaced by small terms, slots renamed) x every set of <=%d balanced alias unions as TLC state; an instance is "
                   "checked when SlottedCC says its left side is Represented; non-trivial = left side present only up to equality; states with a "
                   "redundant slot (per the specification) are outside the documented scope and skipped" % maxeqs,
           "exhaustive": True, "tlc": {t[0]: t[3] for t in tabs}, "replay": summaries,
           "states_skipped_redundant": sum(s["states_skipped_redundant"] for s in summaries)}
    # design level: the operational model of rule application makes the same instances fire (spec/ApplyOp.tla)
    import egop
    cov["operational_apply"] = egop.run_apply(tier, tabs, prop)
    # third: recorded rewriting runs (language A, manual apply_rewrites): every instance matched in the state BEFORE the call is
    # rewritten by the call (all searchers run before any applier), judged by TraceRewrite.tla
    bad, panics, st_rw, summ_rw, lines = rw_trace(tier, prop, 3)
    findings += bad_to_findings(bad, lines, prop) + [f for f in panics if f["prop"] == prop]
    rwev = [json.loads(l) for l in lines if '"ev":"rewrite"' in l]
    cov["rewriting_runs"] = {"tlc_trace": st_rw, "recorder": summ_rw, "apply_rewrites_calls": len(rwev),
                             "calls_in_scope": sum(1 for e in rwev if e.get("in_scope")),
                             "pre_state_instances_followed": sum(e.get("pre_matches", 0) for e in rwev if e.get("in_scope"))}
    # second decision procedure: the complete match sets of a pattern pool in every state of the congruence universes
    import cc
    mine2, cov2, _tables = cc.collect_cc("C04", tier)
    findings += mine2
    cov["states"] += cov2["states"]
    cov["transitions"] += cov2["transitions"]
    cov["traces_validated_against_impl"] += cov2["traces_validated_against_impl"]
    cov["complete_match_sets"] = {"match_sets": cov2.get("match_sets"), "universes": cov2["universes"], "tlc": cov2["tlc"],
                                  "replay": cov2["replay"], "operational_matcher": cov2.get("operational_matcher")}
    finish(prop, tier, t0, findings, cov, assumptions=[
        "scope as stated by the property: linear binders, no redundant slots (decided per state by the specification's NonRed)",
        "instances are computed by Terms.Inst in TLC (ASSUME InstancesAgree), representation by SlottedCC's closure"])


# ------------------------------------------------------------------------------------------------
# recorded rewriting runs (language A) judged by TraceRewrite.tla: C03, C14 (constant folding), C15
# ------------------------------------------------------------------------------------------------
import re, importlib.util


def _rules_for(p, tag):
    spec = importlib.util.spec_from_file_location("rules_A", os.path.join(UNIV, "rules_A.py"))
    m = importlib.util.module_from_spec(spec)
    sys.path.insert(0, UNIV)
    spec.loader.exec_module(m)
    d = os.path.join(OUT, "tlc")
    os.makedirs(d, exist_ok=True)
    path = os.path.join(d, "%s_rules_p%d.json" % (tag, p))
    data = {"p": p, "rules": m.rules(p), "subpool": [m.parse(s, m.SIG_A) for s in m.SUBPOOL]}
    json.dump(data, open(path, "w"))
    return path, data


def numtable(path):
    lits = set(re.findall(r'"op":"(\d+)"', open(path).read()))
    lits |= {str(i) for i in range(10)}
    return {k: int(k) for k in sorted(lits, key=int)}


def model_check_rules(p, tag):
    path, data = _rules_for(p, tag)
    cfg = open(os.path.join(SPEC, "MC_Model.cfg")).read()
    rules = [{"name": r["name"], "l": r["l"], "r": r["r"], "cond": r["cond"]} for r in data["rules"]]
    logp, st = run_tlc_root("%s_model_p%d" % (tag, p), "MC_Model",
                            {"MCP": p, "MCRules": rules, "MCSubPool": tla_set(data["subpool"]),
                             "MCNumTable": {str(i): i for i in range(10)}}, cfg, timeout=3000)
    require_tlc_ok(st, logp, "MC_Model p=%d (a rule of the pool is NOT valid in the model: fix the pool)" % p)
    return st, len(rules)


def rw_trace(tier, tag, p=3, runs=None, variant="default"):
    """record rewriting runs with the real library and validate them with TLC; returns
    (bad obligations, panic findings, tlc stats, recorder summary, trace lines)"""
    path, _ = _rules_for(p, tag)
    runs = runs or (600 if tier == "quick" else 6000)
    vtag = "" if variant == "default" else "_" + variant.replace("+", "_")
    trace = os.path.join(OUT, "tlc", "%s_rw_p%d%s.ndjson" % (tag, p, vtag))
    recs = jsonl(run_bin(variant, "rw_record", [path, trace, runs]))
    summ = [r for r in recs if r["kind"] == "summary"][0]
    if summ.get("hang"):
        summ.update({"runs": 0, "events": 0, "panics": 0, "p": p})
        open(trace, "a").close()
        good = []
        for l in open(trace, errors="replace").read().splitlines():      # the recorder was cut off mid-line
            try:
                json.loads(l)
                good.append(l)
            except ValueError:
                break
        open(trace, "w").write("".join(x + "\n" for x in good))
    panics = [r for r in recs if r["kind"] == "finding"]
    for r in panics:
        if r["prop"] == "*":
            r["prop"] = tag        # the tag is the property being checked
    cfg = open(os.path.join(SPEC, "TraceRewrite.cfg")).read()
    logp, st = run_tlc_root("%s_rwtrace_p%d%s" % (tag, p, vtag), "TraceRewrite", {"TraceP": p, "TraceNumTable": numtable(trace)}, cfg,
                            workers=1, env={"VERIF_TRACE": trace}, xss=True, deque=True, timeout=3000)
    if not st["ok"]:
        sys.stderr.write(open(logp, errors="replace").read()[-3000:])
        raise ToolError("TraceRewrite did not consume the whole trace")
    lines = open(trace).read().splitlines()
    bad = list(tlcout.tagged_lines(logp, "RWBAD"))
    return bad, panics, st, summ, lines


def bad_to_findings(bad, lines, prop):
    out = []
    for b in bad:
        if b["prop"] != prop:
            continue
        # the run's configuration = the last reset event before the failing one
        i = b["i"] - 1
        j = i
        while j > 0 and json.loads(lines[j])["ev"] != "reset":
            j -= 1
        ev = json.loads(lines[i])
        if ev["ev"] == "dump":
            ev = {"ev": "dump", "nclasses": ev["nclasses"], "datum": ev["datum"]}
        out.append({"kind": "finding", "prop": prop, "what": b["what"], "site": "",
                    "detail": {"event_no": b["i"], "event": ev, "run": json.loads(lines[j])}})
    return out


def run_c03(tier):
    t0 = time.time()
    prop = "C03"
    ps = [3] if tier == "quick" else [3, 5]
    mstats = {}
    for p in ps + ([] if tier == "quick" else [7]):
        mstats[p], nrules = model_check_rules(p, prop)
    findings, tstats, summs, nlines, sample = [], {}, [], 0, None
    # the explanations build stores syntactic terms differently (add_syn): b[x := t] through
    # SynExprSubst reads them back, so rewriting is validated in that build as well
    for p, variant in [(p, "default") for p in ps] + [(3, "expl")]:
        bad, panics, st, summ, lines = rw_trace(tier, prop, p, variant=variant)
        findings += [f for f in panics if f["prop"] == prop]
        for f in bad_to_findings(bad, lines, prop):
            f["variant"] = variant
            findings.append(f)
        summ["variant"] = variant
        tstats["%d/%s" % (p, variant)] = st
        summs.append(summ)
        nlines += len(lines)
        cls = [json.loads(l) for l in lines if '"ev":"class"' in l]
        sample = sample or next((c for c in cls if len(c["members"]) >= 3), cls[0] if cls else None)
        ncls = len(cls)
        nontriv = sum(1 for c in cls if len(c["members"]) >= 2)
    cov = {"states": sum(s["distinct"] for s in mstats.values()) + sum(s["distinct"] for s in tstats.values()),
           "transitions": sum(s["generated"] for s in mstats.values()) + sum(s["generated"] for s in tstats.values()),
           "traces_validated_against_impl": sum(s["runs"] for s in summs),
           "samples": [{"class_slots": sample["slots"], "members": sample["members"][:3]}] if sample else [{"none": True}],
           "evaluations": nlines, "distinct_nontrivial": nontriv,
           "rule": "MC_Model.tla: each of the %d rules is valid for ALL admissible substitutions over a 10-term pool and all environments over "
                   "GF(p), p in %s; then recorded runs (manual apply_rewrites / Runner / run_eqsat, random rule subsets, both SubstMethods) are "
                   "dumped class by class and TraceRewrite.tla evaluates every member under ALL environments: one value per assignment of the "
                   "class slots; non-trivial = classes with >= 2 members" % (nrules, list(mstats.keys())),
           "exhaustive": False, "tlc_model": {str(k): v for k, v in mstats.items()}, "tlc_trace": {str(k): v for k, v in tstats.items()},
           "recorder": summs, "class_events": ncls, "panics_attributed_to_C08": sum(s["panics"] for s in summs)}
    finish(prop, tier, t0, findings, cov, assumptions=[
        "members are e-nodes with children replaced by harness-built representative terms (enodes() only); classes whose members exceed "
        "14 nodes or 5 free names are skipped by the recorder (counted in the trace)",
        "node budget <= 200 e-nodes per run"])


def run_c15(tier):
    t0 = time.time()
    prop = "C15"
    import subprocess
    mst = {}
    for cfgname in ["MC_Runner", "MC_Eqsat"]:
        logp = os.path.join(OUT, "tlc", "C15_%s.log" % cfgname)
        os.makedirs(os.path.dirname(logp), exist_ok=True)
        with open(logp, "w") as f:
            subprocess.run(["timeout", "600", "tlc", "-workers", "4", "-metadir", os.path.join(OUT, "tlc", "C15_meta_" + cfgname), "-cleanup",
                            "-noGenerateSpecTE", "-config", cfgname + ".cfg", "Runner.tla"], cwd=SPEC, stdout=f, stderr=subprocess.STDOUT)
        st = tlcout.stats(logp)
        require_tlc_ok(st, logp, cfgname)
        mst[cfgname] = st
    # the same loops with unconstrained limits: inductive invariants discharged by Apalache (all limits)
    import shutil
    apal = {}
    adir = os.path.join(OUT, "tlc", "C15_apalache")
    shutil.rmtree(adir, ignore_errors=True)
    os.makedirs(adir)
    shutil.copy(os.path.join(SPEC, "apalache", "RunnerInd.tla"), adir)
    for name, args in [("Runner: Init=>Ind", ["--init=Init", "--next=NextRunner", "--inv=IndRunner", "--length=0"]),
                       ("Runner: Ind/\\Next=>Ind'", ["--init=IndInitRunner", "--next=NextRunner", "--inv=IndRunner", "--length=1"]),
                       ("run_eqsat: Init=>Ind", ["--init=Init", "--next=NextEqsat", "--inv=IndEqsat", "--length=0"]),
                       ("run_eqsat: Ind/\\Next=>Ind'", ["--init=IndInitEqsat", "--next=NextEqsat", "--inv=IndEqsat", "--length=1"])]:
        r = subprocess.run(["timeout", "600", "apalache-mc", "check"] + args + ["RunnerInd.tla"], cwd=adir, capture_output=True, text=True)
        apal[name] = "EXITCODE: OK" in r.stdout
        if not apal[name]:
            sys.stderr.write(r.stdout[-1500:])
            raise ToolError("Apalache could not discharge %s for RunnerInd.tla" % name)
    shutil.rmtree(os.path.join(adir, "_apalache-out"), ignore_errors=True)
    bad, panics, st, summ, lines = rw_trace(tier, prop, 3, runs=(900 if tier == "quick" else 9000))
    findings = bad_to_findings(bad, lines, prop) + [f for f in panics if f["prop"] == prop]
    evs = [json.loads(l) for l in lines]
    stops = [e for e in evs if e["ev"] == "stop"]
    reasons = {}
    for e in stops:
        reasons[e["reason"]] = reasons.get(e["reason"], 0) + 1
    if len(reasons) < 3 and not findings and not summ.get("panics") and not summ.get("runs_abandoned_as_too_slow"):
        raise ToolError("recorder exercised only stop reasons %s: vacuous" % reasons)
    cov = {"states": sum(s["distinct"] for s in mst.values()) + st["distinct"],
           "transitions": sum(s["generated"] for s in mst.values()) + st["generated"],
           "traces_validated_against_impl": len(stops) + sum(1 for e in evs if e["ev"] == "rewrite"),
           "samples": [[e for e in evs[:40] if e["ev"] in ("reset", "iter", "stop")][:4]],
           "evaluations": sum(1 for e in evs if e["ev"] in ("iter", "stop", "rewrite")),
           "distinct_nontrivial": sum(1 for e in evs if e["ev"] == "iter" and e["fp_changed"]),
           "rule": "Runner.tla model-checked (bounded-termination, truth of limit reasons, liveness Terminates) for Runner::run and run_eqsat; "
                   "recorded runs with iter_limit 0..3, node limits 20/40/60/100 (a hook stops run-away growth above 80 e-nodes), hooks failing at iteration 0..2; every iteration's stop "
                   "decision must be one the specification allows given the INDEPENDENT fingerprint (fp_changed => apply_rewrites returned true), "
                   "reports checked, saturation re-checked; non-trivial = iterations that changed the fingerprint",
           "stop_reasons_seen": reasons, "tlc_model": mst, "apalache_inductive_obligations_for_all_limits": apal, "tlc_trace": st, "recorder": summ}
    finish(prop, tier, t0, findings, cov, assumptions=["the loop's own clock is bracketed by the recorder's clock (hook time stamps), not read; time limits used: the defaults, zero and 5 s"])


def c14_constfold(tier):
    """C14 part 2: constant folding with its modify hook on recorded rewriting runs"""
    bad, panics, st, summ, lines = rw_trace(tier, "C14", 3)
    return bad_to_findings(bad, lines, "C14") + [f for f in panics if f["prop"] == "C14"], st, summ, sum(1 for l in lines if '"ev":"dump"' in l)
