"""Checks for the small self-contained state machines: C19 SlotMap, C17 SlotTable, C10 Group,
C16 Shape, C18 Parse."""
import json, os, re, time
from common import *
import tlcout


def validate_trace(tag, module, defs, trace_path, timeout=1800):
    """TLC trace validation: returns (accepted, stats, rejected_event_number, log excerpt)"""
    cfg = open(os.path.join(SPEC, module + ".cfg")).read()
    logp, st = run_tlc_root(tag, module, defs, cfg, workers=1, env={"VERIF_TRACE": trace_path}, xss=True,
                            deque=True, timeout=timeout)
    txt = open(logp, errors="replace").read()
    if st["ok"]:
        return True, st, None, ""
    m = re.search(r'"TRACE-REJECTED at event",\s*(\d+)\s*,', txt)
    if m:
        tail = txt[m.end():m.end() + 800]
        return False, st, int(m.group(1)), " ".join(tail.split())[:600]
    sys.stderr.write(txt[-3000:])
    raise ToolError("trace validation of %s failed without a rejection report (spec or tool error)" % module)


def run_c19(tier):
    t0 = time.time()
    prop = "C19"
    cfg = open(os.path.join(SPEC, "MC_SlotMap.cfg")).read()
    S = [1, 2, 3, 4]
    logp, st = run_tlc_root("C19_mc", "MC_SlotMap", {"MCS": tla_set(S), "MCPairS": tla_set([1, 2, 3])}, cfg, workers=8)
    require_tlc_ok(st, logp, "MC_SlotMap")
    states = list(tlcout.tagged_lines(logp, "SMSTATE"))
    bins = [r["rows"] for r in tlcout.tagged_lines(logp, "SMBIN")]
    if len(states) != 625 or len(bins) != 64:
        raise ToolError("unexpected table sizes %d/%d" % (len(states), len(bins)))
    tpath = os.path.join(os.path.dirname(logp), "table.json")
    json.dump({"S": S, "states": states, "bin": bins}, open(tpath, "w"))
    maxlen = 5 if tier == "quick" else 6
    findings, summaries = [], []
    # the table does not depend on which concrete slots stand for the model's 1..4: replayed with
    # numeric slots and with mixtures of textual / numeric / `$f<n>` names whose order interleaves
    for variant, kinds in [("default", "numeric"), ("checks", "numeric"), ("default", "mixed-a"), ("default", "mixed-b")]:
        recs = jsonl(run_bin(variant, "sm_replay", [tpath, maxlen if (variant, kinds) == ("default", "numeric") else min(maxlen, 5)],
                             env={"VERIF_SM_KINDS": kinds}))
        for r in recs:
            r["variant"] = variant
            r["slot_kinds"] = kinds
            (summaries if r["kind"] == "summary" else findings).append(r)
    # direction B: recorded random long sequences over 12-16 slots validated by TLC
    runs, ln = (40, 100) if tier == "quick" else (300, 200)
    trace = os.path.join(OUT, "tlc", "C19_trace.ndjson")
    rec = jsonl(run_bin("default", "sm_record", [trace, runs, ln], env={"VERIF_SM_KINDS": ["numeric", "mixed-a", "mixed-b"][seed() % 3]}))[0]
    ok, tst, evno, excerpt = validate_trace("C19_trace", "TraceSlotMap", {"TraceS": Raw("0..63")}, trace)
    if not ok:
        lines = open(trace).read().splitlines()
        findings.append({"kind": "finding", "prop": prop, "what": "recorded SlotMap call is not a step of SlotMap.tla",
                         "site": "", "detail": {"event_no": evno, "event": json.loads(lines[evno - 1]),
                                                "previous": [json.loads(x) for x in lines[max(0, evno - 4):evno - 1]]}})
    sample = states[137]
    cov = {"states": st["distinct"] + tst["distinct"], "transitions": st["generated"] + tst["generated"],
           "traces_validated_against_impl": sum(s["paths"] for s in summaries) + (runs if ok else 0),
           "samples": [{"spec_state": sample["st"]["pairs"], "successor_after_insert(1,1)": sample["ins"][0][0]},
                       {"recorded_event": json.loads(open(trace).read().splitlines()[5])}],
           "evaluations": sum(s["steps"] + s["binary_rows"] + s["reads"] for s in summaries) + rec["events"],
           "distinct_nontrivial": st["distinct"] - 1,
           "rule": "all 625 partial maps over 4 slots (non-trivial = non-empty), every insert/remove transition, all "
                   "operation sequences up to length %d walked on the real SlotMap; all 64x64 pairs over 3 slots for "
                   "the binary operations; %d recorded random sequences of %d calls over 12-16 slots validated by TLC"
                   % (maxlen, runs, ln),
           "exhaustive": True, "tlc_model": st, "tlc_trace": tst, "replay": summaries, "recorded_events": rec["events"]}
    finish(prop, tier, t0, findings, cov, assumptions=[
        "hash is compared through std DefaultHasher; Ord is only required to be a path-independent total order consistent with equality"])


ST_NAMES = ["0", "1", "007", "+1", "f0", "f1", "f01", "f", "x", "fx"]


def run_c17(tier):
    t0 = time.time()
    prop = "C17"
    cfg = open(os.path.join(SPEC, "MC_SlotTable.cfg")).read()
    depth = 4 if tier == "quick" else 5
    defs = {"MCNames": tla_set([list(n) for n in ST_NAMES]), "MCNums": tla_set([0, 1, 7]), "MCDepth": depth}
    logp, st = run_tlc_root("C17_mc", "MC_SlotTable", defs, cfg)
    require_tlc_ok(st, logp, "MC_SlotTable")
    behs = list(tlcout.tagged_lines(logp, "STREPLAY"))
    nops = len(ST_NAMES) + 3 + 1
    if len(behs) != nops ** depth:
        raise ToolError("expected %d behaviours, TLC emitted %d" % (nops ** depth, len(behs)))
    # longer behaviours (depth 12) by simulation, larger name alphabet
    sim_names = ST_NAMES + ["1073741823", "f1000", "f2", "2", "00", "f00", "-1", "ff1", "1f", "f+1",
                            "1073741824", "4294967295", "4294967296", "f1073741823", "f1073741824", "f4294967295", "99999999999999999999"]
    sdefs = {"MCNames": tla_set([list(n) for n in sim_names]), "MCNums": tla_set([0, 1, 2, 7, 1073741823]), "MCDepth": 12}
    nsim = 300 if tier == "quick" else 5000
    slog, sst = run_tlc_root("C17_sim", "MC_SlotTable", sdefs, cfg, workers=1,
                             simulate="num=%d" % nsim, timeout=900)
    # TLC -simulate ends with its own summary; behaviours were emitted by the invariant
    sbehs = list(tlcout.tagged_lines(slog, "STREPLAY"))
    if len(sbehs) < nsim // 2:
        sys.stderr.write(open(slog, errors="replace").read()[-2000:])
        raise ToolError("simulation produced only %d behaviours" % len(sbehs))
    # unbounded integer core with Apalache: IndInv is inductive and implies FreshIsNew
    apal = {}
    import subprocess, shutil
    adir = os.path.join(OUT, "tlc", "C17_apalache")
    shutil.rmtree(adir, ignore_errors=True)
    os.makedirs(adir)
    shutil.copy(os.path.join(SPEC, "apalache", "SlotCounter.tla"), adir)
    for name, args in [("Init=>IndInv", ["--init=Init", "--inv=IndInv", "--length=0"]),
                       ("IndInv/\\Next=>IndInv'", ["--init=IndInit", "--inv=IndInv", "--length=1"]),
                       ("IndInv=>FreshIsNew", ["--init=IndInit", "--inv=FreshIsNew", "--length=0"])]:
        r = subprocess.run(["timeout", "600", "apalache-mc", "check"] + args + ["SlotCounter.tla"], cwd=adir, capture_output=True, text=True)
        apal[name] = "EXITCODE: OK" in r.stdout
        if not apal[name]:
            sys.stderr.write(r.stdout[-1500:])
            raise ToolError("Apalache could not discharge %s for SlotCounter.tla" % name)
    shutil.rmtree(os.path.join(adir, "_apalache-out"), ignore_errors=True)
    bpath = os.path.join(os.path.dirname(logp), "beh.ndjson")
    with open(bpath, "w") as f:
        for b in behs + sbehs:
            f.write(json.dumps(b) + "\n")
    recs = jsonl(run_bin("default", "st_replay", [bpath, ncpu()]))
    summ = [r for r in recs if r["kind"] == "summary"][0]
    findings = [r for r in recs if r["kind"] == "finding"]
    distinct = len({json.dumps([e["res"] for e in b]) for b in behs})
    cov = {"states": st["distinct"], "transitions": st["generated"],
           "traces_validated_against_impl": summ["behaviours"],
           "samples": [[{"call": e["op"], "arg": "".join(e["arg"]), "slot": e["res"][0] + ":" + "".join(e["res"][1])} for e in behs[len(behs) // 3]],
                       [{"call": e["op"], "arg": "".join(e["arg"])} for e in sbehs[0]]],
           "evaluations": summ["behaviours"], "distinct_nontrivial": distinct,
           "rule": "all interleavings of fresh/numeric/named up to depth %d over names %s and numbers 0,1,7, each replayed in a "
                   "fresh thread; plus %d simulated behaviours of depth 12 over a larger alphabet; distinct = distinct result sequences"
                   % (depth, ST_NAMES, len(sbehs)),
           "exhaustive": True, "tlc_model": st, "simulated_behaviours": len(sbehs),
           "apalache_inductive_obligations": apal}
    finish(prop, tier, t0, findings, cov, assumptions=[
        "numeric names below 2^30 and fresh counters far from u32 overflow (as in the property's quantifier)",
        "the invariants FreshIsNew, BelowCtr, NamesInjective, RoundTrip are checked by TLC on SlotTable.tla itself; the Rust "
        "code is bound by replaying every behaviour and comparing equality patterns and printed names"])


def run_c10(tier):
    t0 = time.time()
    prop = "C10"
    cfg = open(os.path.join(SPEC, "MC_Group.cfg")).read()
    findings, summaries, tl = [], [], {}
    for deg in [2, 3, 4]:
        logp, st = run_tlc_root("C10_S%d" % deg, "MC_Group", {"MCDeg": deg, "MCMaxGens": 3}, cfg)
        require_tlc_ok(st, logp, "MC_Group deg %d" % deg)
        perms = list(tlcout.tagged_lines(logp, "GRPERMS"))[0]
        trans = list(tlcout.tagged_lines(logp, "GRTRANS"))
        if len(trans) != st["generated"] - 1:
            raise ToolError("transition table incomplete: %d lines for %d transitions" % (len(trans), st["generated"] - 1))
        tpath = os.path.join(os.path.dirname(logp), "table.json")
        json.dump({"deg": deg, "perms": perms["perms"], "trans": trans}, open(tpath, "w"))
        tl[deg] = (st, trans, perms["perms"])
        for variant in (["default", "checks"] if tier == "thorough" else ["default"]):
            recs = jsonl(run_bin(variant, "gr_replay", ["table", tpath, ncpu()]))
            for r in recs:
                r["variant"] = variant
                if r["kind"] == "finding" and r["prop"] == "*":
                    r["prop"] = prop
                if r["kind"] == "summary" and r.get("hang"):
                    r.update({"group_cases": 0, "egraph_cases": 0})
                (summaries if r["kind"] == "summary" else findings).append(r)
    # random generator sets on 5 and 6 points: recorded from the real code, validated by TLC
    cases = 40 if tier == "quick" else 300
    trace = os.path.join(OUT, "tlc", "C10_trace.ndjson")
    recs = jsonl(run_bin("default", "gr_replay", ["record", trace, cases]))
    findings += [r for r in recs if r["kind"] == "finding"]
    ok, tst, evno, excerpt = validate_trace("C10_trace", "TraceGroup", {"TraceDeg": 2, "TraceMaxGens": 1}, trace, timeout=3000)
    lines = open(trace).read().splitlines()
    if not ok:
        e = json.loads(lines[evno - 1])
        findings.append({"kind": "finding", "prop": prop, "what": "recorded group case on %d points disagrees with the brute-force closure" % e["deg"],
                         "site": "", "detail": {"event_no": evno, "gens": e["gens"], "more": e["more"], "count1": e["count1"],
                                                "count2": e["count2"], "grew": e["grew"], "naming": e["naming"]}})
    # design level: the stabiliser-chain model GroupOp.tla refines the brute-force reference along every
    # sequence of add_set calls on 4 points (a disagreement is a tool error: two of our models)
    glog, gst = run_tlc("GroupOp", "MC_GroupOp.cfg", {}, "C10_groupop", workers=8, timeout=900)
    require_tlc_ok(gst, glog, "GroupOp")
    st4, trans4, perms4 = tl[4]
    s = trans4[len(trans4) // 2]
    e0 = json.loads(lines[0]) if lines else {}
    cov = {"states": sum(v[0]["distinct"] for v in tl.values()) + tst["distinct"],
           "transitions": sum(v[0]["generated"] for v in tl.values()) + tst["generated"],
           "traces_validated_against_impl": sum(x["group_cases"] + x["egraph_cases"] for x in summaries) + (len(lines) if ok else 0),
           "samples": [{"from_group_order": len(s["from"]), "added_generators": [perms4[i - 1] for i in s["gens"]],
                        "to_group_order": len(s["to"]), "grew": s["grew"], "orbits": s["orbits"]},
                       {"recorded_case": {k: e0.get(k) for k in ["deg", "gens", "more", "count1", "count2", "grew"]}}],
           "evaluations": sum(x["group_cases"] + x["egraph_cases"] for x in summaries) + len(lines),
           "distinct_nontrivial": sum(1 for v in tl.values() for t in v[1] if t["grew"]),
           "rule": "every transition (subgroup, generator set of <=3 permutations) of S2,S3,S4 [30 subgroups of S4 x 2325 sets] replayed "
                   "on the real Group (two representations of the from-group, 5 slot namings) and through unions of a multi-slot leaf in "
                   "the e-graph; %d random cases on 5/6 points recorded and validated by TLC; non-trivial = transitions that grow the group" % cases,
           "exhaustive": True, "tlc": {("S%d" % d): v[0] for d, v in tl.items()}, "tlc_trace": tst, "replay": summaries,
           "operational_model": {"what": "GroupOp.tla (stabiliser chain: build_ot, schreiers_lemma, contains, all_perms, count, generators, add_set) "
                                         "refines Group.tla on S4 along all add_set sequences: same elements, order, membership, orbits, growth flag; the "
                                         "generators read back from the chain generate the whole group", "tlc": gst}}
    finish(prop, tier, t0, findings, cov, assumptions=[
        "hook H1 (verif_group.rs) is a logic-free wrapper around the private Group<Perm>",
        "Group.tla computes subgroups by brute-force closure; IsGroup/Lagrange/OrbitsPartition checked by TLC on every state"])


def run_c16(tier):
    t0 = time.time()
    prop = "C16"
    import subprocess
    nodes_path = os.path.join(UNIV, "nodes_T.json")
    nodes = json.load(open(nodes_path))["nodes"]
    trace = os.path.join(OUT, "tlc", "C16_trace.ndjson")
    findings = []
    summ = jsonl(run_bin("default", "sh_record", [nodes_path, trace]))[0]
    cfg = open(os.path.join(SPEC, "TraceShape.cfg")).read()
    logp, st = run_tlc_root("C16_trace", "TraceShape", {}, cfg, workers=1, env={"VERIF_TRACE": trace}, xss=True, deque=True)
    res = list(tlcout.tagged_lines(logp, "SHAPERESULT"))
    if not st["ok"] or not res:
        sys.stderr.write(open(logp, errors="replace").read()[-3000:])
        raise ToolError("TraceShape did not consume all records")
    res = res[0]
    recs = [json.loads(l) for l in open(trace)]
    for b in tlcout.tagged_lines(logp, "SHAPEBAD"):
        r = recs[b["i"]]
        if "payload" in r:
            findings.append({"kind": "finding", "prop": prop, "what": "law fails: " + b["laws"][0], "site": r.get("site", ""), "collides": False,
                             "detail": {"payload": r["payload"], "msg": r.get("msg")}})
            continue
        for law in b["laws"]:
            findings.append({"kind": "finding", "prop": prop, "what": "law fails: " + law, "site": r.get("site", ""),
                             "collides": b["collides"], "detail": {"node": nodes[b["i"] % len(nodes)], "naming": "txt-fwd" if b["i"] < len(nodes) else "num0", "record": {k: r.get(k) for k in ("all", "pub", "priv", "slots", "shape_key", "bij", "back", "msg")}}})
    if res["canon"]:
        w = res["canon"][0]
        findings.append({"kind": "finding", "prop": prop, "site": "", "collides": w["collides"],
                         "what": "equal shapes for nodes that are not renamings of each other" if w["same_impl_shape"]
                         else "different shapes for nodes that differ only by renaming", "detail": w})
    # laws of the reference itself on a sample of nodes under all renamings (TLC, thorough: all nodes)
    cov = {"states": st["distinct"], "transitions": st["generated"], "traces_validated_against_impl": len(recs),
           "samples": [{"node": nodes[1999], "impl_shape": recs[1999].get("shape_key"), "public": recs[1999].get("pub"),
                        "private": recs[1999].get("priv")}],
           "evaluations": len(recs) * 11, "distinct_nontrivial": res["classes"],
           "rule": "every variant layout of the derived language T (plain slots, child, Bind child, Bind next to a free child before/after, "
                   "Bind Bind, 0/1/2-argument children) x every slot assignment over 4 names incl. repeated and shadowing names = %d nodes; "
                   "11 laws per node judged by TraceShape.tla; distinct = renaming classes (equal reference shapes)" % len(nodes),
           "exhaustive": True, "renaming_classes_spec": res["classes"], "renaming_classes_impl": res["impl_classes"],
           "nodes_with_name_both_free_and_bound": sum(1 for b in recs if not b.get("panic") and "payload" not in b and set(b["pub"]) & set(b["priv"])),
           "payload_values_round_tripped": sum(1 for b in recs if "payload" in b),
           "panics": summ["panics"]}
    finish(prop, tier, t0, findings, cov, triggers={"node_collides": lambda f: bool(f.get("collides"))}, assumptions=[
        "language T is produced by the in-repo define_language! (Cargo [patch]); only the laws are demanded, not the particular numbering"])


PARSE_SIG = {"f": {"nsl": 2, "bind": []}, "v": {"nsl": 1, "bind": []}, "c": {"nsl": 0, "bind": []},
             "g": {"nsl": 0, "bind": [0]}, "h": {"nsl": 0, "bind": [0, 0]}, "lam": {"nsl": 0, "bind": [1]},
             "let": {"nsl": 0, "bind": [1, 0]}}
PARSE_TOKS = [["lp", ""], ["rp", ""], ["lb", ""], ["rb", ""], ["ce", ""], ["id", "f"], ["id", "g"], ["id", "c"],
              ["id", "lam"], ["id", "7"], ["pv", "U"], ["sl", "1"]]
PARSE_CHARS = ["(", ")", "[", "]", ":", "=", "?", "$", " ", "g", "U", "1"]   # U = a multi-byte character in the real text


def run_c18(tier):
    t0 = time.time()
    prop = "C18"
    cfg = open(os.path.join(SPEC, "MC_Parse.cfg")).read()
    findings, summaries, tl = [], [], {}
    L = 5 if tier == "quick" else 6
    for mode, alpha in [("tok", PARSE_TOKS), ("chr", PARSE_CHARS)]:
        defs = {"MCSig": PARSE_SIG, "MCPayloads": tla_set(["7", "1", "11", "111", "1111", "11111", "111111"]),
                "MCAlphabet": tla_set(alpha), "MCMaxLen": L, "MCMode": mode}
        logp, st = run_tlc_root("C18_" + mode, "MC_Parse", defs, cfg, timeout=3000)
        require_tlc_ok(st, logp, "MC_Parse " + mode)
        acc = list(tlcout.tagged_lines(logp, "PARSEOK"))
        tpath = os.path.join(os.path.dirname(logp), "table.json")
        json.dump({"mode": mode, "alphabet": alpha, "maxlen": L, "accepted": acc}, open(tpath, "w"))
        tl[mode] = (st, acc)
        recs = jsonl(run_bin("default", "pa_replay", [tpath, ncpu()]))
        s = [r for r in recs if r["kind"] == "summary"][0]
        if s["strings"] != st["distinct"]:
            raise ToolError("harness enumerated %d strings, TLC %d states" % (s["strings"], st["distinct"]))
        summaries.append(s)
        findings += [r for r in recs if r["kind"] == "finding"]
    # direction B: mutated long texts, judged by TLC
    cases = 300 if tier == "quick" else 3000
    trace = os.path.join(OUT, "tlc", "C18_trace.ndjson")
    rec = jsonl(run_bin("default", "pa_record", [trace, cases]))[0]
    pay = [str(i) for i in range(1, 10)] + ["%d%d" % (i, j) for i in range(1, 10) for j in range(1, 10)]
    tcfg = open(os.path.join(SPEC, "TraceParse.cfg")).read()
    logp, tst = run_tlc_root("C18_trace", "TraceParse", {"MCSig": PARSE_SIG, "MCPayloads": tla_set(pay)}, tcfg, workers=1,
                             env={"VERIF_TRACE": trace}, xss=True, deque=True, timeout=3000)
    if not tst["ok"]:
        sys.stderr.write(open(logp, errors="replace").read()[-3000:])
        raise ToolError("TraceParse did not consume the whole trace")
    lines = open(trace).read().splitlines()
    for b in tlcout.tagged_lines(logp, "PARSEBAD"):
        e = json.loads(lines[b["i"] - 1])
        what = ("parser panics on mutated text" if e["panic"] else
                "mutated text: implementation accepts, specification rejects" if e["ok"] and not b["spec_ok"] else
                "mutated text: implementation rejects a well-formed text" if b["spec_ok"] and not e["ok"] else
                "mutated text: parsed value differs / print-parse round trip fails")
        findings.append({"kind": "finding", "prop": prop, "what": what, "site": e.get("site", ""),
                         "detail": {"text": "".join(e["chars"]), "kind": e["kind"], "impl_ast": e["ast"], "spec_ast": b["spec_ast"], "msg": e.get("msg")}})
    acc_b = sum(1 for l in lines if json.loads(l)["ok"])
    cov = {"states": sum(v[0]["distinct"] for v in tl.values()) + tst["distinct"],
           "transitions": sum(v[0]["generated"] for v in tl.values()) + tst["generated"],
           "traces_validated_against_impl": sum(s["strings"] for s in summaries) + len(lines),
           "samples": [{"tokens": tl["tok"][1][-1]["s"], "ast": tl["tok"][1][-1]["ast"]},
                       {"mutated_text": "".join(json.loads(lines[3])["chars"]), "impl_ok": json.loads(lines[3])["ok"]}],
           "evaluations": sum(s["strings"] for s in summaries) + len(lines),
           "distinct_nontrivial": sum(len(v[1]) for v in tl.values()) + acc_b,
           "rule": "ALL strings of <=%d tokens over a 12-token alphabet and ALL strings of <=%d characters over a 12-character alphabet "
                   "(TLC state space = the strings; Parse.tla's Total/RoundTrip invariants on each); the harness enumerates the same strings "
                   "itself: accepted ones must give exactly the emitted AST and round-trip, all others Err, nothing may panic; Pattern, RecExpr "
                   "and MultiPattern entry points; plus %d mutated long texts recorded and judged by TraceParse.tla; non-trivial = accepted texts"
                   % (L, L, len(lines)),
           "exhaustive": True, "tlc": {k: v[0] for k, v in tl.items()}, "tlc_trace": tst, "replay": summaries, "recorder": rec}
    finish(prop, tier, t0, findings, cov, assumptions=[
        "language P (harness) has one payload variant (u32); payload texts in the models are canonical numerals",
        "whitespace is the ASCII space in the models (the tokenizer uses Unicode White_Space)"])
