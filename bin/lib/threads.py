"""C20: reproducibility - every schedule of Threads.tla executed with real threads in a fresh
process; the main thread's transcript (incl. dump output) must be byte-identical to the solo run."""
import json, os, time, subprocess, hashlib, concurrent.futures
from common import *
import tlcout

MAIN = [["sym", "alpha"], ["egraph", ""], ["sym", "beta"], ["fresh", ""], ["egraph", ""], ["named", "xname"], ["timed", ""]]
NOISE = [["sym", "zeta"], ["fresh", ""], ["sym", "beta"], ["egraph", ""]]


def run_c20(tier):
    t0 = time.time()
    prop = "C20"
    cfg = open(os.path.join(SPEC, "MC_Threads.cfg")).read()
    logp, st = run_tlc_root("C20_mc", "MC_Threads", {"MCMain": MAIN, "MCNoise": NOISE}, cfg)
    require_tlc_ok(st, logp, "MC_Threads")
    scheds = list(tlcout.tagged_lines(logp, "SCHEDULE"))
    import math
    if len(scheds) != math.comb(len(MAIN) + len(NOISE), len(NOISE)):
        raise ToolError("expected all interleavings, got %d" % len(scheds))
    findings, nrun, sample = [], 0, None
    for variant in (["default"] if tier == "quick" else ["default", "expl"]):
        d = cargo_build(variant)
        exe = os.path.join(d, "th_replay")

        def run(s):
            # per-process load: the hooks of the timed runs sleep 0 / 20 / 40 ms per iteration
            delay = 0 if s == "solo" else 20 * (sum(i for i, c in enumerate(s) if c == "n") % 3)
            p = subprocess.run([exe, s], stdout=subprocess.PIPE, stderr=subprocess.PIPE, timeout=120, env=dict(os.environ, VERIF_TH_DELAY=str(delay)))
            return p.returncode, p.stdout, p.stderr[-500:].decode(errors="replace")
        rc, ref, err = run("solo")
        if rc != 0:
            findings.append({"kind": "finding", "prop": "C08", "what": "main history panics", "site": "", "detail": {"stderr": err}})
            continue
        sample = sample or ref.decode(errors="replace").splitlines()[:6]
        # same process arguments, fresh processes: addresses and hash seeds differ
        for rep in range(3 if tier == "quick" else 10):
            rc, out, err = run("solo")
            nrun += 1
            if out != ref:
                findings.append({"kind": "finding", "prop": prop, "what": "two solo runs in fresh processes give different transcripts", "site": "",
                                 "variant": variant, "detail": first_diff(ref, out)})
                break
        strs = ["".join("m" if t == "main" else "n" for t in s["sched"]) for s in scheds]
        with concurrent.futures.ThreadPoolExecutor(max_workers=ncpu()) as ex:
            results = list(ex.map(run, strs))
        for s, (rc, out, err) in zip(strs, results):
            nrun += 1
            if rc != 0:
                findings.append({"kind": "finding", "prop": prop, "what": "run with a concurrent noise thread fails", "site": "", "variant": variant,
                                 "detail": {"schedule": s, "stderr": err}})
            elif out != ref:
                la, lb = ref.decode(errors="replace").splitlines(), out.decode(errors="replace").splitlines()
                diff = [(x, y) for x, y in zip(la, lb) if x != y]
                if len(la) == len(lb) and diff and all("tie_" in x and "tie_" in y for x, y in diff):
                    # only the lines about the class of equal-cost symbol constants differ (finding D20)
                    findings.append({"kind": "finding", "prop": prop, "site": "", "variant": variant, "schedule": s,
                                     "what": "choice among equal-cost symbol constants depends on the order in which the global interner saw the names",
                                     "detail": dict(first_diff(ref, out), schedule=s, differing_lines=len(diff))})
                else:
                    findings.append({"kind": "finding", "prop": prop, "what": "transcript depends on what another thread is doing", "site": "",
                                     "variant": variant, "detail": dict(first_diff(ref, out), schedule=s)})
    cov = {"states": st["distinct"], "transitions": st["generated"], "traces_validated_against_impl": nrun,
           "samples": [{"schedule": scheds[17]["sched"], "global_symbol_interning_order": scheds[17]["symorder"]}, {"transcript_head": sample}],
           "evaluations": nrun, "distinct_nontrivial": len({json.dumps(s["symorder"]) for s in scheds}),
           "rule": "Threads.tla: all %d interleavings of a 7-operation main history (symbols, e-graph work, fresh and named slots, rewriting, "
                   "matching, extraction, dump, run_eqsat / Runner with a 30 s time limit under a per-process hook delay of 0/20/40 ms) with a 4-operation noise thread (interns the main thread's symbols first, draws fresh slots, "
                   "interns the same slot names, rewrites its own e-graph); invariant Reproducible on the model; every schedule executed with real "
                   "threads (channel hand-shake) in a fresh process, stdout compared byte for byte with the solo run; distinct = distinct global "
                   "symbol interning orders" % len(scheds),
           "exhaustive": True, "tlc_model": st}
    def noise_interned_symbols_before_the_tie_class(f):
        # some operation of the noise thread that interns symbols (its first one does) ran before the main thread's third
        # operation, which builds the class of equal-cost symbol constants: the interner's indices (per shard) of these
        # constants then differ from the solo run
        sch = f.get("schedule", "")
        return "n" in sch and sch.index("n") < [i for i, c in enumerate(sch) if c == "m"][2]
    finish(prop, tier, t0, [f for f in findings if f["prop"] == prop], cov, triggers={"noise_interned_symbols_before_the_tie_class": noise_interned_symbols_before_the_tie_class}, assumptions=[
        "address and hash-seed independence is exercised (fresh processes), not modelled",
        "one fixed main history; the schedule space is exhaustive at operation granularity"])


def first_diff(a, b):
    la, lb = a.decode(errors="replace").splitlines(), b.decode(errors="replace").splitlines()
    for i, (x, y) in enumerate(zip(la, lb)):
        if x != y:
            return {"line": i + 1, "solo": x[:300], "other": y[:300]}
    return {"line": min(len(la), len(lb)) + 1, "solo": "<%d lines>" % len(la), "other": "<%d lines>" % len(lb)}
