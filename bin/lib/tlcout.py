"""Parsing of TLC output: PrintT'ed JSON lines and run statistics."""
import json, re

def tagged_lines(path, tag):
    """yield the JSON payload of every line  "<tag> {...}"  printed by PrintT (a TLA+ string)"""
    pre = '"' + tag + ' '
    with open(path, errors="replace") as f:
        for line in f:
            if line.startswith(pre):
                s = json.loads(line.strip())          # the TLA+ string literal is a JSON string
                yield json.loads(s[len(tag) + 1:])

def stats(path):
    out = {"generated": 0, "distinct": 0, "depth": 0, "ok": False, "error": None}
    txt = open(path, errors="replace").read()
    m = re.search(r"(\d+) states generated, (\d+) distinct states found, (\d+) states left", txt)
    if m:
        out["generated"], out["distinct"] = int(m.group(1)), int(m.group(2))
    m = re.search(r"depth of the complete state graph search is (\d+)", txt)
    if m:
        out["depth"] = int(m.group(1))
    out["ok"] = "Model checking completed. No error has been found." in txt
    m = re.search(r"Error: (.*)", txt)
    if m and not out["ok"]:
        out["error"] = m.group(1)[:300]
    return out
