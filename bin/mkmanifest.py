#!/usr/bin/env python3
"""(re)generate MANIFEST.json from the table below; run after adding a check."""
import json, os
V = os.path.dirname(os.path.dirname(os.path.abspath(__file__)))
props = [json.loads(l) for l in open(os.path.join(V, "properties.jsonl"))]

CC_NOTE = ("TLC explores the SlottedCC model exhaustively within the stated constants; the Rust code is bound to it "
           "by replaying every state along all linearisations and comparing the complete observation after every call. "
           "Trusted: TLC, the term/JSON encoding, the harness's use of the public API. No claim beyond the explored bounds.")

CHECKS = {
 "C01": ("SlottedCC.tla + TLC exhaustive, replay of all linearisations into the real EGraph (spec->impl conformance)",
         "every equality / dropped slot / symmetry the implementation reports is derivable in the specification's closure, on every state of the bounded universes U1-U6 and the seeded random universes; alarms are re-confirmed by a checked proof search", "5 C01"),
 "C02": ("SlottedCC.tla + TLC exhaustive, replay of all linearisations into the real EGraph (spec->impl conformance)",
         "every equality, redundancy and symmetry the specification's closure derives is reported by the implementation as soon as union returns", "5 C02"),
 "C08": ("SlottedCC.tla + TLC exhaustive state graph replayed in default and checks builds; panic capture, EGraph::check() and public-API consistency predicates after every call; EGraphOp.tla (operational model: union-find with slot maps, shrink_slots, move_to, handle_pending) checked by TLC to refine SlottedCC and to satisfy the structural invariants of check.rs; recorded rewriting runs without panic",
         "no panic, check() passes and the structure is consistent after every call of every linearisation of every TLC state", "5 C08"),
 "C09": ("SlottedCC.tla (Represented/ClassOf/NonRed) + TLC exhaustive, lookup/add compared on every ground term of the universe in every state",
         "lookup succeeds exactly for represented terms, re-insertion creates nothing and agrees with lookup, renaming commutes", "5 C09"),
 "C11": ("SlottedCC.tla is name-free; every TLC state replayed under 9 namings (numeric asc/desc, textual fwd/rev interning, $f<big>, $f<next> up front / lazily, two mixtures of textual, numeric and $f<n> names whose order interleaves) and observations compared with each other and the spec",
         "observations of a history are identical under all namings", "5 C11"),
 "C12": ("SlottedCC.tla invariant IncrementalIsBatch (TLC, all orders) + replay of all orders x orientations x insertion modes per state; EGraphOp.tla (operational model with the pending list served fifo and lifo) checked by TLC to reach the congruence of SlottedCC for every order of equations",
         "all linearisations of one equation set give the one observation of the specification state", "5 C12"),
 "C13": ("SlottedCC.tla action property Monotone (TLC) + replay keeping every handle and every earlier equality along every path",
         "equalities never lost, old handles stay usable and denote their term, slot sets shrink, progress measure moves in its documented direction", "5 C13"),
}

SMALL_NOTE = ("TLC explores the small specification exhaustively within the stated constants and emits its transition table / "
              "behaviours; the Rust type is bound to it by replaying every emitted behaviour (and, where stated, by TLC "
              "validating recorded traces of the real code). Trusted: TLC, the JSON encoding, the harness.")
CHECKS.update({
 "C19": ("SlotMap.tla + TLC: all 625 maps over 4 slots, transition table replayed along all operation sequences <= 5 on the real SlotMap; binary ops over all 64x64 pairs; every map built from every listing order (LawFromSeq); concrete slots numeric and mixed kinds; TraceSlotMap.tla validates recorded random long sequences (impl->spec)",
         "every public SlotMap operation agrees with the reference finite map; eq/hash/ord are construction-path independent", "5 C19"),
 "C17": ("SlotTable.tla + TLC: all interleavings of fresh/numeric/named to depth 4/5 with invariants FreshIsNew, NamesInjective, RoundTrip; every behaviour replayed in a fresh thread",
         "fresh slots are new, distinct names denote distinct slots, print/parse round-trips, on every interleaving of the bounded model", "5 C17"),
})
CHECKS["C10"] = ("Group.tla (brute-force subgroup closure) + GroupOp.tla (stabiliser-chain model, checked to refine it) + TLC: every (subgroup, <=3 generators) transition of S2-S4 replayed on the real Group via hook H1 and through unions in the e-graph; TraceGroup.tla validates recorded random cases on 5/6 points",
         "membership, enumeration, order, orbits and growth flag agree with the generated subgroup; permuted copies are equal in the e-graph exactly for group members", "5 C10")
CHECKS["C16"] = ("Shape.tla (scoped reference shape, occurrence lists) + TLC: records of the derived Language impl for all 3498 enumerated e-nodes judged by TraceShape.tla (impl->spec), global bijection impl-shape <-> reference renaming class",
         "the 11 shape / occurrence / syntax laws hold for every enumerated node of the derived language T", "5 C16")
CHECKS["C18"] = ("Parse.tla (tokenizer, total parser, printer) + TLC: all strings <=5/6 tokens and <=5/6 characters as state space with invariants Total/RoundTrip; harness enumerates the same strings against the emitted accepted-language table; TraceParse.tla judges recorded parses of mutated long texts (impl->spec)",
         "the parser accepts exactly the specification's language with exactly its ASTs, never panics, and print->parse is the identity, on every enumerated string and every recorded mutated text", "5 C18")
NOTES = {"C19": SMALL_NOTE, "C17": SMALL_NOTE, "C10": SMALL_NOTE, "C16": SMALL_NOTE, "C18": SMALL_NOTE}
CHECKS["C06"] = ("SlottedCC.tla MinCost (least fixpoint over the partition's e-node structure, 3 strictly monotone cost functions) + TLC exhaustive; extraction from every represented invocation (and every old handle) in every replayed final state compared with it; recorded rewriting runs (default and explanations build, ExtractionSubst) must not panic in the extractor",
         "extracted terms are represented in the queried invocation, their recomputed cost equals the reported best cost and the specification's minimum, free slots are query arguments or brand-new", "5 C06")
CHECKS["C05"] = ("EMatch.tla (declarative e-matching over the congruence of SlottedCC.tla: the complete set of admissible ground matches of every pattern, orbit-least form) + TLC exhaustive; every state replayed into the real EGraph: every substitution of ematch_all is grounded in the name pool, mapped to specification classes and must be a member of the specification's set (states without redundant slots); in every final state a 25-pattern / 20-multi-pattern pool is matched and every returned substitution is instantiated (harness representatives) and looked up; fingerprint before/after; design level: the operational e-matcher EMatchOp.tla (ematch.rs function by function) is checked by TLC to compute exactly these match sets on the reachable states of EGraphOp.tla",
         "every reported match binds all variables, is a member of the specification's match set and denotes a represented term, multi-pattern equations hold between the bound classes, matching changes nothing", "5 C05")
CHECKS["C14"] = ("SlottedCC.tla MinCost for astsize/depth and LeafOps (set of leaf operators, join = union) = least fixpoints of make/merge; three analyses (min size/depth, leaf operators) read at every class after every call of every replayed path and compared; EGraphOp.tla (operational model with update_analysis / pending types / join in move_to) checked by TLC to reach these fixpoints; TraceRewrite.tla: constant folding with its modify hook on recorded rewriting runs",
         "analysis data of every class equals the specification's least fixpoint after every call (min-size, min-depth); constant folding with modify hook: see level_note", "5 C14")
NOTES_EXTRA = {"C14": CC_NOTE + " Constant-folding analysis (modify hook) is exercised by the rewrite recorder (rw_record) once built; until then only the two slot-independent lattices are covered."}
CHECKS["C04"] = ("MC_Fire.tla (SlottedCC + Terms.Inst) + TLC: per rule, every set of balanced alias unions as state with Represented(l.sigma) decided by the closure; replay: build pre-state, apply_rewrites once, require r.sigma represented and equal; EMatch.tla + TLC: the complete set of ground matches of a 43-pattern pool in every state of the congruence universes, ematch_all must report every one of them (states without redundant slots); TraceRewrite.tla: in recorded apply_rewrites calls with several rules every instance matched in the state before the call is rewritten by the call; design level: EMatchOp.tla (operational model of ematch.rs) refines EMatch.tla on the reachable states of EGraphOp.tla, ApplyOp.tla (pattern_subst / apply_rewrites on the operational model) makes every planted instance of the MC_Fire tables fire",
         "every planted instance whose left side the specification says is represented (also only up to equality) fires; ematch_all finds every ground match the specification derives; all searchers run before any applier - on all explored states within the documented scope", "5 C04")
RW_NOTE = ("TLC checks the model-level facts (rule validity over GF(p), Runner.tla invariants and liveness) exhaustively within the stated constants; the Rust "
           "code is bound by TLC validating recorded runs of the real rewriting machinery event by event (TraceRewrite.tla). Trusted: TLC, the recorder's "
           "representative terms built from enodes(), the independent fingerprint.")
CHECKS["C03"] = ("Model.tla (GF(p) semantics, Terms.Inst) + MC_Model: every pool rule valid for all admissible substitutions/environments; TraceRewrite.tla validates recorded rewriting runs: every class member evaluated under ALL environments",
         "with model-valid rules every e-node of every class and the start term denote one function of the class slots, independent of other slots, on all recorded runs (both substitution methods, conditional rules, binder-moving rules)", "5 C03")
CHECKS["C15"] = ("Runner.tla/RunnerOps.tla model-checked (bounded termination, truthful limit reasons incl. time limits on an abstract clock, liveness; apalache/RunnerInd.tla: inductive invariants for all limits discharged by Apalache); TraceRewrite.tla validates every recorded iteration/stop/report of Runner::run, run_eqsat and apply_rewrites against the specified stop decision using an independent fingerprint",
         "apply_rewrites returns false only when nothing observable changed; every stop reason and report field is the one the control-loop specification allows; saturation re-checked", "5 C15")
NOTES_EXTRA["C03"] = RW_NOTE
NOTES_EXTRA["C15"] = RW_NOTE
NOTES_EXTRA["C14"] = CC_NOTE + " Constant folding with its modify hook: recorded rewriting runs of language A judged by TraceRewrite.tla (DumpOK)."
CHECKS["C07"] = ("Proofs.tla (term-level proof checker: refl/sym/trans/cong up to per-side injective renamings, explicit leaves, conclusion) + TLC validating every recorded explanation DAG of the explanations build node by node, and every flat explanation (to_flat_string) as a chain of single rewrite steps (StepAt / FlatConcludes) (TraceProofs.tla, impl->spec)",
         "every explanation returned for equal pool terms in every SlottedCC history is a valid proof of the queried equation whose leaves are the asserted equations with their justifications; a panic is a violation", "5 C07")
NOTES_EXTRA["C07"] = ("TLC evaluates Proofs.tla on every recorded proof node; histories are the TLC states of the SlottedCC universes. Trusted: TLC, get_syn_expr as the "
                      "term reading of proof equations, the recorder. Rule-application leaves are exercised through logged rule applications.")
CHECKS["C20"] = ("Threads.tla (thread-local slot tables, global symbol interner, global wall clock) + TLC: all interleavings of main history and noise thread with invariant Reproducible; every schedule replayed with real threads in a fresh process, transcript (incl. dump) compared byte for byte with the solo run",
         "the main thread's transcript is identical under every interleaving with unrelated work in another thread and across fresh processes", "5 C20")
NOTES_EXTRA["C20"] = ("TLC enumerates the schedules and checks the model's invariant; the Rust code is bound by executing every schedule. Trusted: TLC, the "
                      "channel hand-shake, byte comparison of stdout. Address/hash-seed independence is only exercised (fresh processes).")
PENDING = {}  # filled below for every property without a check yet

man = {
 "version": 1,
 "setup_cmd": "cd /verif/harness && cargo build --release --offline --target-dir target/default",
 "hooks": {
   "guard": "--cfg slotted_egraphs_verif",
   "enable": "rustflags in /verif/harness/.cargo/config.toml: --cfg slotted_egraphs_verif --check-cfg cfg(slotted_egraphs_verif); the harness depends on /repo by path and patches slotted-egraphs-derive to /repo/slotted-egraphs-derive",
   "baseline_off_cmd": "cd /repo && cargo test --workspace --no-fail-fast --offline",
   "source_commits": ["ec9eabe"],
   "fix_commits": ["9badd07", "5396f70", "b035feb", "2ddbd7f", "253cc2c", "9ab3fcf", "352017a", "2a27235", "75e3c3a", "5afd426", "640e671", "3e314d3", "4dcce54", "d4651f6", "1e93cc9", "b27661e", "b251537", "cfcbc3c", "0360727", "c3020f8", "2a38624", "2db9378", "9af976a", "429dfd3", "20cc4b9"],
   "add_only": True,
 },
 "engines": [
   {"name": "tlc-slottedcc", "path": "spec/SlottedCC.tla", "serves_properties": list(CHECKS.keys()),
    "kind_free_text": "explicit TLA+ specification (spec/*.tla) model-checked by TLC; REPLAY tables emitted per state"},
   {"name": "tlc-egraphop", "path": "spec/EGraphOp.tla", "serves_properties": ["C08", "C12", "C14"],
    "kind_free_text": "operational TLA+ model of the e-graph algorithm, model-checked by TLC to refine SlottedCC (generated root with the REPLAY table as constant)"},
   {"name": "tlc-extractop", "path": "spec/ExtractOp.tla", "serves_properties": ["C06"],
    "kind_free_text": "operational TLA+ model of the extraction work list, model-checked on all small e-graphs against the least-fixpoint cost"},
   {"name": "tlc-groupop", "path": "spec/GroupOp.tla", "serves_properties": ["C10"],
    "kind_free_text": "operational TLA+ model of the stabiliser chain, model-checked to refine the brute-force subgroup closure"},
   {"name": "cc_replay", "path": "harness/src/bin/cc_replay.rs", "serves_properties": list(CHECKS.keys()),
    "kind_free_text": "Rust replayer: drives the real EGraph along every linearisation of every TLC state and compares observations"},
 ],
 "checks": [],
 "notes": "bin/check <ID> <tier>; exit 0/1/2 = held / VIOLATION / tool error. known_findings.json lists genuine defects not repaired.",
 "not_applicable": [],
}
for p in props:
    pid = p["id"]
    if pid in CHECKS:
        tech, text, ref = CHECKS[pid]
        man["checks"].append({
            "property_id": pid,
            "quick_cmd": "bin/check %s quick" % pid,
            "thorough_cmd": "bin/check %s thorough" % pid,
            "evidence_file": "/verif/evidence/%s.json" % pid,
            "replay_cmd_template": "bin/check --replay {path}",
            "engine": "tlc+replay",
            "level_claimed": {"category": "model_checking", "text": text, "design_ref": "DESIGN.md section " + ref},
            "level_note": NOTES_EXTRA.get(pid, NOTES.get(pid, CC_NOTE)),
            "technique": tech,
        })
    else:
        man["not_applicable"].append({"property_id": pid, "reason": PENDING.get(pid, "check under construction in this session (specification module planned in DESIGN.md section 5); not claimed yet")})
json.dump(man, open(os.path.join(V, "MANIFEST.json"), "w"), indent=1)
print("checks:", [c["property_id"] for c in man["checks"]])
