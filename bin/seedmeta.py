#!/usr/bin/env python3
"""usage: bin/seedmeta.py            (development helper for the seeded-change campaign)
Writes `needs_to_manifest` / `caught_by` into seeded/<id>/meta.json and appends the rows of the rounds listed in NOTES to
seeded/README.md (idempotent: a row that is already there is replaced)."""
import json, os, re, sys
V = os.path.dirname(os.path.dirname(os.path.abspath(__file__)))

# id: (changed file, caught_by, note)
NOTES = {
 "C02n": ("src/egraph/union.rs", ["C02"], "round 13: move_to adds the generators of the merged-away class to the survivor's group without re-queuing the survivor's parents (the very first C02 seed, found again independently). Caught at once (U4: parents present before a symmetric class is merged into theirs)"),
 "C04n": ("src/rewrite/ematch.rs", ["C04"], "round 13: ematch_all de-duplicates the matches of a class by (variable -> class id, pattern slot per covered argument); arguments the pattern does not cover are all recorded alike, so {a->W[x,y], b->W[y,x]} and {a->W[x,y], b->W[x,y]} collide and the second instance never fires. Needs one class that holds two e-nodes matching the pattern's root (a union of two instances beforehand) whose bindings differ only in uncovered slots. @C04N@"),
 "C05n": ("src/rewrite/multipat.rs", ["C05"], "round 13: union_slot of the multi-pattern matcher lost its second guard: two DIFFERENT pattern slots are merged when the e-graph uses one slot at both places (`?a == (var $x), ?b == (var $y)` on `(sub (var $z) (var $z))`), the reported substitution violates the equation that mentions $x. Caught at once (multi-pattern pool with two slot names on terms with a repeated slot)"),
 "C07n": ("src/explain/registry.rs", ["C07"], "round 13: ProofRegistry::insert answers a same-class equation with an already registered proof of the MIRRORED equation: for a 3-cycle that is a proof of the inverse permutation; explain_equivalence panics in an intermediate TransitivityProof::check, depending on the names the user chose. @C07N@"),
 "C10n": ("src/group/mod.rs", ["C10"], "round 13: add_set fast path: permutations that fix the top layer's base point and map its orbit onto itself are pushed into the stabiliser without rebuilding the layer - the Schreier generators are never recomputed, so a 4-cycle followed by a neighbour transposition gives 8 instead of 24 elements. Caught at once (transition table of MC_Group: all two-step add_set sequences on S4)"),
 "C11n": ("src/egraph/mod.rs", ["C11", "C09"], "round 13: proven_proven_pre_shape picks the canonical group variant of e-nodes with MORE THAN TWO children by comparing the raw slot occurrence lists (Slot: Ord) instead of the name-free weak shapes: the same term under another relative order of its names gets another shape, the hashcons misses it. Missed at first: no e-node with three children that share three slots over a symmetric child class -> universe U18 (ite(f12, f23, v1) with f symmetric): C11 (two namings differ) and C09 (lookup fails for a represented term)"),
 "C15n": ("src/run/runner.rs", ["C15"], "round 13 (two cooperating sites): run_one takes the node count once right after apply_rewrites - before the hooks - and feeds it to the limit check and the Iteration record; Runner::run fills Report.egraph_nodes from the last iteration. Whatever a hook does to the e-graph in the final iteration is invisible to the report. Missed at first: every hook of the recorder was pure -> extra Runner runs (a tenth more, so earlier runs keep their configuration) whose hook adds an isolated leaf in every iteration; the change apply_rewrites made is read off before the hook's own mutation. @C15N@"),
 "C16n": ("src/lang.rs", ["C16"], "round 13: Bind::public_slot_occurrences_iter lists ALL slot occurrences of its element instead of the public ones: for Bind<Bind<T>> the inner binder's slot is reported as public (slots() too large, public and private occurrences no longer partition the occurrences, disagreement with the _mut twin). Caught at once (sum / Bind<Bind<_>> layouts of the node enumeration)"),
 "C18n": ("src/parse.rs", ["C18"], "round 13: the text of a bare identifier that is read as a PAYLOAD is recomputed from the leaf it was first parsed as (to_syntax of the child reading): `(name 007)` comes back as `(name 7)`, `+1` as `1`. Needs a bare integer leaf variant, a named operator with a Symbol payload and a payload that reads as a non-canonical number. Missed at first: payload texts of language Q were canonical -> payloads 007, +1, 010, 00 in the payload-term events of pa_record"),
 "C19n": ("src/slotmap.rs", ["C19"], "round 13: SlotMap::union appends `other` when self's last key <= other's first key (`<` needed): a key shared exactly at the seam is stored twice (len, Eq/Hash, remove wrong). Caught at once (binary operation table over all pairs of maps)"),
 "C01o": ("src/egraph/add.rs", ["@C01O@"], "round 14: add_internal refreshes the bound slots of a new shape only when the renaming targets one of $0..$(n_bound-1) - wrong when the binder is not numbered first: `(let e $x body)` has its binder at shape number 1, a free slot of the body named exactly `$1` is captured on first insertion and the class loses a parameter (t = t[$1 := $3] reported). @C01ON@"),
 "C03o": ("src/rewrite/subst_method.rs", ["C03"], "round 14: do_term_subst as one bottom-up pass that decides `is this x` on the already substituted subterm - the defect D17 (repaired in 2a27235) re-introduced. @C03ON@"),
 "C06o": ("src/extract/mod.rs", ["@C06O@"], "round 14: Extractor::new keeps a one-element fast lane in front of the heap: a new candidate that is cheaper than the heap's head is settled next although a cheaper sibling becomes ready in the same loop over the usages - non-minimal cost that also propagates to the parents; depends on the hash order of the usage set. @C06ON@"),
 "C08o": ("src/egraph/mod.rs", ["@C08O@"], "round 14: the key that picks the canonical group variant uses the PUBLIC slot occurrences only: variants that differ in how a bound slot is passed to a symmetric child (lam $0. c[$0,$1] / c[$1,$0]) tie, the stored shape stops being canonical: check() fails / `pc_from_shape` panics in a later union. Needs a binder over a class whose symmetry moves the bound slot. @C08ON@"),
 "C09o": ("src/egraph/rebuild.rs", ["C09"], "round 14: determine_self_symmetries re-queues the usages of src_id (the class the e-node was created in) instead of its current leader: when that class was merged away before the symmetry arrived by propagation, the parents keep a stale hashcons key: lookup misses a represented term, add creates a second class. Caught at once"),
 "C12o": ("src/egraph/rebuild.rs", ["C12"], "round 14: touched_class overwrites the pending type (plain insert): a later OnlyAnalysis touch downgrades an entry that is still owed Full, the parent keeps a dead child id and its congruence is never found; needs a non-trivial analysis and a parent that uses both the merged-away class and a class whose datum improves in the same union. Caught at once (analysis paths of the replay)"),
 "C13o": ("src/egraph/union.rs", ["@C13O@"], "round 14: union_leaders no longer re-normalises the left side after shrink_slots (restricts it to `cap` locally): when the shrink re-asserts a broken symmetry the class shrinks BELOW cap, the stale invocation is trusted by move_to and two old handles that were equal through the symmetry (plus[x,y], plus[y,x]) become unequal; only when the symmetric class is the LEFT argument. @C13ON@"),
 "C14o": ("src/egraph/rebuild.rs", ["@C14O@"], "round 14: the same library change as C12o (touched_class overwrites the pending type), seeded independently for C14: the downgraded e-node is re-made once but stays registered under the dead child id, a later improvement of the survivor never reaches it - stale datum. @C14ON@"),
 "C17o": ("src/slot.rs", ["C17"], "round 14: `if out > tab.fresh_idx` instead of `<=`: naming exactly the NEXT fresh slot `$f<k>` no longer moves the counter (the round-1 change, found again). Caught at once"),
 "C20o": ("src/slot.rs", ["@C20O@"], "round 14: the spellings of named slots move to a process-wide vector that every thread appends to: the NUMBER of a named slot, and with it the order between a named slot and an `$f<n>` slot, depends on how many names other threads registered before. @C20ON@"),
}


def main():
    fill = json.load(open(sys.argv[1])) if len(sys.argv) > 1 else {}
    rows = {}
    for sid, (path, caught, note) in NOTES.items():
        d = os.path.join(V, "seeded", sid)
        if not os.path.isdir(d):
            print("missing", sid)
            continue
        for k, v in fill.items():
            note = note.replace("@%s@" % k, v if isinstance(v, str) else "")
            caught = [x for c in caught for x in (v if c == "@%s@" % k and isinstance(v, list) else [c])]
        if "@" in note or any("@" in c for c in caught):
            print("unfilled", sid)
            continue
        m = json.load(open(os.path.join(d, "meta.json")))
        m["needs_to_manifest"] = note
        m["caught_by"] = caught
        json.dump(m, open(os.path.join(d, "meta.json"), "w"), indent=1)
        rows[sid] = "| %s | %s | %s | %s |" % (sid, path, " ".join(caught), note)
    p = os.path.join(V, "seeded", "README.md")
    lines = [l for l in open(p).read().splitlines() if not any(l.startswith("| %s |" % s) for s in rows)]
    lines += [rows[s] for s in sorted(rows)]
    open(p, "w").write("\n".join(lines) + "\n")
    print("rows", len(rows))


if __name__ == "__main__":
    main()
