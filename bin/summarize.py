#!/usr/bin/env python3
"""debug helper: run cc_replay on the tables of a previous check run and summarise findings"""
import json, collections, subprocess, sys, os
variant = sys.argv[1] if len(sys.argv) > 1 else "default"
tag = sys.argv[2] if len(sys.argv) > 2 else "C08"
c = collections.Counter(); ex = {}
for u in ["U1", "U2", "U3"]:
    out = subprocess.run(["/verif/harness/target/%s/release/cc_replay" % variant, "/verif/universes/%s.json" % u,
                          "/verif/out/tlc/%s_%s/table.json" % (tag, u), "all", "16"], capture_output=True, text=True).stdout
    for l in out.splitlines():
        r = json.loads(l)
        if r["kind"] != "finding":
            print(u, l); continue
        k = (u, r["prop"], r["what"], r["site"])
        c[k] += 1
        ex.setdefault(k, r)
uni = {u: json.load(open("/verif/universes/%s.json" % u)) for u in ["U1", "U2", "U3"]}
for k, v in sorted(c.items()):
    r = ex[k]
    U = uni[r["universe"]]
    hist = ["%s%s%s" % (U["texts"][U["eqs"][e-1][0]-1], "<=" if fl else "=", U["texts"][U["eqs"][e-1][1]-1]) for e, fl in r["path"]]
    print(v, k)
    print("     ", hist, "step", r["step"], r["naming"], r["mode"], json.dumps(r["detail"])[:260])
