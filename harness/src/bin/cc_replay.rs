//! Direction A for the SlottedCC specification: drive the real e-graph along every
//! linearisation (order x orientation) of every state TLC explored, and compare the complete
//! observation after every call with the one the specification emitted for that state.
//!
//! usage: cc_replay <universe.json> <table.json> [namings=rotate|all] [threads]
//! table.json = {"us":[TERM..], "states":[{"key":[..],"lab":[..],"ncls":n,"slots":[[..]..],"syms":[..]}..]}
//! stdout: one JSON object per line: {"kind":"finding",...} ... {"kind":"summary",...}

use serde::{Deserialize, Serialize};
use serde_json::json;
use slotted_egraphs::*;
use std::collections::{BTreeMap, BTreeSet, HashMap};
use std::sync::atomic::{AtomicUsize, Ordering};
use std::sync::{Arc, Mutex};
use verif_harness::costs::*;
use verif_harness::langs::T;
use verif_harness::obs::*;
use verif_harness::term::*;
use verif_harness::util::*;

#[derive(Deserialize)]
struct Universe {
    name: String,
    #[serde(rename = "N")]
    n: u32,
    terms: Vec<Term>,
    eqs: Vec<(usize, usize)>,
    #[serde(default)]
    base: Vec<usize>,
}

#[derive(Deserialize, Clone)]
struct SpecObs {
    key: Vec<usize>,
    lab: Vec<usize>,
    ncls: usize,
    slots: Vec<Vec<u32>>,
    syms: Vec<usize>,
    cost: Vec<Vec<u64>>,
    /// expected e-matching results (spec/EMatch.tla): per pattern the orbit-least ground matches
    #[serde(default)]
    leaf: Vec<Vec<String>>,
    #[serde(default)]
    mt: Vec<Vec<[usize; 3]>>,
    #[serde(default = "yes")]
    nored: bool,
}
fn yes() -> bool { true }

#[derive(Deserialize, Clone)]
struct PatSpec {
    text: String,
    free: Vec<u32>,
    bound: Vec<u32>,
    vars: Vec<String>,
}

/// the two analyses the paths are run with
/// insertion through `add_expr`, or (VERIF_SYN_ADD=1) through `add_syn_expr`: the same operation in
/// the default build, the syntactic insertion path in the explanations build
fn add_x<N: Analysis<T>>(eg: &mut EGraph<T, N>, ex: RecExpr<T>) -> AppliedId {
    if *SYN_ADD.get_or_init(|| std::env::var("VERIF_SYN_ADD").map(|v| v == "1").unwrap_or(false)) { eg.add_syn_expr(ex) } else { eg.add_expr(ex) }
}
static SYN_ADD: std::sync::OnceLock<bool> = std::sync::OnceLock::new();

/// C09: "the returned invocation's slots are the term's free slots minus those proven redundant" - judged on the VALUE that
/// add / add_expr returns (eq, find and lookup trim surplus arguments): every slot it mentions is a free slot of the term
fn returned_slots_ok(h: &AppliedId, term: &Term, nm: &Naming) -> Result<(), String> {
    let fv = term.fv();
    for s in h.slots() {
        match nm.name(s) {
            Some(k) if fv.contains(&k) => {}
            _ => return Err(format!("{:?}", h)),
        }
    }
    Ok(())
}

trait AnKind: Analysis<T> + Default + 'static {
    const NAME: &'static str;
    fn datum(eg: &EGraph<T, Self>, id: Id) -> Option<(u64, u64)>;
    fn multi(eg: &EGraph<T, Self>, pat: &MultiPattern<T>) -> Option<Vec<Subst>>;
    fn leaves(_: &EGraph<T, Self>, _: Id) -> Option<BTreeSet<String>> { None }
}
impl AnKind for Leaves {
    const NAME: &'static str = "leaf-operators";
    fn datum(_: &EGraph<T, Leaves>, _: Id) -> Option<(u64, u64)> { None }
    fn multi(_: &EGraph<T, Leaves>, _: &MultiPattern<T>) -> Option<Vec<Subst>> { None }
    fn leaves(eg: &EGraph<T, Leaves>, id: Id) -> Option<BTreeSet<String>> { Some(eg.analysis_data(id).clone()) }
}
impl AnKind for () {
    const NAME: &'static str = "unit";
    fn datum(_: &EGraph<T, ()>, _: Id) -> Option<(u64, u64)> { None }
    fn multi(eg: &EGraph<T, ()>, pat: &MultiPattern<T>) -> Option<Vec<Subst>> { Some(multi_ematch(pat, eg)) }
}
impl AnKind for SizeDepth {
    const NAME: &'static str = "size-depth";
    fn datum(eg: &EGraph<T, SizeDepth>, id: Id) -> Option<(u64, u64)> { Some(*eg.analysis_data(id)) }
    fn multi(_: &EGraph<T, SizeDepth>, _: &MultiPattern<T>) -> Option<Vec<Subst>> { None }
}

const PATTERNS: [&str; 25] = [
    "?a", "(g ?a)", "(h ?a ?b)", "(h ?a ?a)", "(f {1} {2})", "(f {1} {1})", "(f3 {1} {2} {3})", "(v {1})",
    "(lam {1} ?a)", "(g (f {1} {2}))", "(h (f {1} {2}) ?b)", "(h (f {1} {2}) (f {2} {3}))", "(lam {1} (f {1} {2}))",
    "(lam {1} (f {2} {1}))", "(let {1} ?a ?b)", "(k ?a {1} ?b)", "(sum ?a {1} {2} ?b)", "(g (g ?a))",
    // a variable before the node that carries the pattern's free slot; distinct pattern slots
    "(h ?a (v {1}))", "(h (v {1}) ?a)", "(h ?a (p {1} {2}))", "(h (v {1}) (v {2}))", "(h (p {1} {2}) (p {2} {1}))",
    "(lam {1} (h ?a (v {1})))", "(h (p {1} {2}) (v {1}))",
];
const MULTIPATTERNS: [&str; 20] = [
    // a single atom with a binder / a variable bound right after an earlier child of the same node was unified:
    // the binding must use the pattern's slot names, not the e-node's stale ones (defect D16)
    "?x == (lam {1} ?a)", "?p == (g ?a), ?q == (h ?a ?b)", "?p == (v {1}), ?q == (h ?p ?b)", "?x == (k ?a {1} ?b)",
    "?x == (sum ?a {1} {2} ?b)", "?x == (let {1} ?a ?b)",
    // variables bound by different earlier atoms, related later, then forced onto one slot
    "?p == (h ?a ?c), ?q == (h ?d ?b), ?r == (h ?a ?b), ?a == (v {1}), ?b == (v {1})",
    "?p == (h ?a ?c), ?q == (h ?d ?b), ?r == (h ?a ?b), ?a == (v {1}), ?b == (v {2})",
    "?p == (h ?a ?c), ?r == (h ?a ?b), ?b == (p {1} {2}), ?a == (p {2} {1})",
    "?x == (h ?a ?b), ?a == (f {1} {2})", "?x == (g ?a), ?a == (g ?b)", "?x == (h ?a ?a)", "?x == (f {1} {2})",
    "?x == (h ?a ?b), ?b == (v {1}), ?a == (f {1} {2})",
    "?x == (p {1} {2}), ?y == (p {2} {1})", "?x == (h ?a ?b), ?y == (h ?b ?a)", "?x == (lam {1} ?a), ?a == (p {1} {2})",
    "?x == (h ?a ?b), ?a == (v {1}), ?b == (v {1})", "?x == (h ?a ?b), ?a == (v {1}), ?b == (v {2})",
    "?x == (h ?a ?b), ?a == (p {1} {2}), ?b == (p {2} {1})",
];

fn concrete(text: &str, nm: &Naming) -> String {
    let mut t = text.to_string();
    for k in 1..=3u32 {
        t = t.replace(&format!("{{{k}}}"), &nm.slot(k).to_string());
    }
    t
}

#[derive(Deserialize)]
struct Table {
    us: Vec<Term>,
    states: Vec<SpecObs>,
    #[serde(default)]
    patterns: Vec<PatSpec>,
    /// long histories (TLC -simulate): ordered lists of equations; when present ONLY these are replayed
    #[serde(default)]
    traces: Vec<Vec<usize>>,
}

#[derive(Serialize, Clone)]
struct Finding {
    kind: &'static str,
    prop: String,
    what: String,
    universe: String,
    key: Vec<usize>,
    path: Vec<(usize, bool)>,
    step: usize,
    naming: String,
    mode: String,
    site: String,
    detail: serde_json::Value,
}

struct Ctx {
    uni: Universe,
    us: Vec<Term>,
    us_index: HashMap<Term, usize>,
    pool_ui: Vec<usize>, // pool term -> universe index
    states: HashMap<Vec<usize>, SpecObs>,
    patterns: Vec<PatSpec>,
    /// all bijections of the name pool, and per bijection the universe index of every renamed universe term
    bijs: Vec<Vec<u32>>,
    ren_idx: Vec<Vec<usize>>,
}

#[derive(Default)]
struct Stats {
    paths: usize,
    steps: usize,
    panics: usize,
    comparisons: usize,
    readds: usize,
    extractions: usize,
    data: usize,
    matches: usize,
    match_sets: usize,
    match_tuples: usize,
    ungroundable: usize,
}

#[derive(Clone, PartialEq, Eq, Debug)]
struct Fingerprint {
    cls: Vec<usize>,
    nlive: usize,
    slots: Vec<Option<Vec<Option<u32>>>>,
    syms: Vec<Option<usize>>,
    /// per pattern of FP_PATTERNS: does ematch_all find anything (a yes/no answer, invariant under renaming and order)
    has_match: Vec<Option<bool>>,
}

/// patterns whose explicit slots recur across different e-nodes of one match
const FP_PATTERNS: [&str; 8] = ["(h (p {1} {2}) (v {1}))", "(h (v {1}) (p {2} {1}))", "(w (p {1} {2}) {1})", "(h (p {1} {2}) (p {3} {1}))",
    "(h (f {1} {2}) (f {2} {3}))", "(h (f {1} {2}) (v {1}))", "(lam {1} (f {1} {2}))", "(h (p {1} {2}) (p {2} {1}))"];

fn orders(k: usize) -> Vec<Vec<usize>> {
    perms(k)
}

struct PathRun<'a> {
    ctx: &'a Ctx,
    nm: &'a Naming,
    us_exprs: &'a [RecExpr<T>],
    pool_exprs: &'a [RecExpr<T>],
    /// terms are converted (and the lazy slot name parsed) only when they are used
    lazy: bool,
    mode: &'a str,
    /// compare the complete match sets with the specification's (first path of a state/naming only)
    full_match: bool,
    /// observe nothing between the calls of the history (only after the last one): every query canonicalises what
    /// it touches (path compression), so a history that is watched after every call never has a stale union-find
    /// chain when the next call arrives
    quiet: bool,
    /// number of this path within its job (varies which of the old handles are compared before they are canonicalised)
    nth: usize,
    findings: Vec<Finding>,
    stats: Stats,
}

impl<'a> PathRun<'a> {
    fn pool_expr(&self, t: usize) -> RecExpr<T> {
        if self.lazy {
            to_recexpr::<T>(&self.ctx.uni.terms[t - 1], self.nm).unwrap()
        } else {
            self.pool_exprs[t - 1].clone()
        }
    }

    fn finding(
        &mut self,
        prop: &str,
        what: &str,
        key: &[usize],
        path: &[(usize, bool)],
        step: usize,
        site: &str,
        detail: serde_json::Value,
    ) {
        self.findings.push(Finding {
            kind: "finding",
            prop: prop.to_string(),
            what: what.to_string(),
            universe: self.ctx.uni.name.clone(),
            key: key.to_vec(),
            path: path.to_vec(),
            step,
            naming: self.nm.kind.clone(),
            mode: self.mode.to_string(),
            site: site.to_string(),
            detail,
        });
    }

    /// returns the fingerprint of the final state if the path completed
    fn run<N: AnKind>(&mut self, path: &[(usize, bool)]) -> Option<Fingerprint> {
        let ctx = self.ctx;
        self.stats.paths += 1;
        tick(&format!("{} path {:?} naming {} mode {}", ctx.uni.name, path, self.nm.kind, self.mode));
        let full_key: Vec<usize> = {
            let mut k: Vec<usize> = path.iter().map(|p| p.0).collect();
            k.sort();
            k
        };
        // a different number of fresh slots drawn beforehand: the classes' internal slot names, hence the hashes of the
        // stored shapes and the order in which the pending map hands them out, differ from path to path
        // (not under the namings whose point is a user name that spells exactly the NEXT fresh slot)
        if !self.nm.kind.starts_with("fresh-") { for _ in 0..(self.nth % 5) * 3 { let _ = Slot::fresh(); } }
        let mut eg: EGraph<T, N> = EGraph::default();
        let mut handles: Vec<(usize, AppliedId)> = Vec::new(); // (universe idx, invocation)
        let mut prev_obs: Option<ImplObs> = None;
        let mut prev_progress = progress_of(&eg);
        let mut final_fp = None;

        // the universe's base terms (parents etc.) are inserted up front, in either order
        {
            let mut base = ctx.uni.base.clone();
            if path.first().map(|p| p.1).unwrap_or(false) { base.reverse(); }
            for t in base {
                let ex = self.pool_expr(t);
                match guard(|| add_x(&mut eg, ex)) {
                    Ok(h) => {
                        if let Err(d) = returned_slots_ok(&h, &ctx.uni.terms[t - 1], self.nm) {
                            self.finding("C09", "add_expr returned an invocation with a slot that is not a free slot of the term", &full_key, path, 0, "",
                                json!({"term": ctx.uni.terms[t-1].show(), "returned": d}));
                        }
                        handles.push((ctx.pool_ui[t - 1], h))
                    }
                    Err(p) => {
                        self.stats.panics += 1;
                        self.finding("C08", "panic in add_expr", &full_key, path, 0, &site_key(&p),
                            json!({"msg": p.msg, "term": ctx.uni.terms[t-1].show()}));
                        return None;
                    }
                }
            }
        }
        if self.mode == "eager" {
            // insert every term of the final state first (order: as they appear along the path)
            for (e, flip) in path {
                let (a, b) = ctx.uni.eqs[*e - 1];
                let (a, b) = if *flip { (b, a) } else { (a, b) };
                for t in [a, b] {
                    let ex = self.pool_expr(t);
                    match guard(|| add_x(&mut eg, ex)) {
                        Ok(h) => handles.push((ctx.pool_ui[t - 1], h)),
                        Err(p) => {
                            self.stats.panics += 1;
                            self.finding("C08", "panic in add_expr", &full_key, path, 0, &site_key(&p),
                                json!({"msg": p.msg, "term": ctx.uni.terms[t-1].show()}));
                            return None;
                        }
                    }
                }
            }
        }

        let mut key: Vec<usize> = Vec::new();
        for (step, (e, flip)) in path.iter().enumerate() {
            self.stats.steps += 1;
            tick(&format!("{} path {:?} step {} naming {} mode {}", ctx.uni.name, path, step + 1, self.nm.kind, self.mode));
            let (a, b) = ctx.uni.eqs[*e - 1];
            let (a, b) = if *flip { (b, a) } else { (a, b) };
            key.push(*e);
            key.sort();
            let ea = self.pool_expr(a);
            let eb = self.pool_expr(b);
            // every other path asserts the equation through the EARLIEST handles of its sides where the terms were inserted
            // before (base terms, sides of earlier equations) instead of inserting the terms again
            let old_a = if self.nth % 2 == 1 { handles.iter().find(|(u, _)| *u == ctx.pool_ui[a - 1]).map(|(_, h)| h.clone()) } else { None };
            let old_b = if self.nth % 2 == 1 { handles.iter().find(|(u, _)| *u == ctx.pool_ui[b - 1]).map(|(_, h)| h.clone()) } else { None };
            let r = guard(|| {
                let ia = match old_a { Some(h) => h, None => add_x(&mut eg, ea) };
                let ib = match old_b { Some(h) => h, None => add_x(&mut eg, eb) };
                eg.union(&ia, &ib);
                (ia, ib)
            });
            let (ia, ib) = match r {
                Ok(x) => x,
                Err(p) => {
                    self.stats.panics += 1;
                    self.finding("C08", "panic in add_expr/union", &key, path, step + 1, &site_key(&p),
                        json!({"msg": p.msg, "a": ctx.uni.terms[a-1].show(), "b": ctx.uni.terms[b-1].show()}));
                    return None;
                }
            };
            for (t, h) in [(a, &ia), (b, &ib)] {
                if let Err(d) = returned_slots_ok(h, &ctx.uni.terms[t - 1], self.nm) {
                    self.finding("C09", "add_expr returned an invocation with a slot that is not a free slot of the term", &key, path, step + 1, "",
                        json!({"term": ctx.uni.terms[t-1].show(), "returned": d}));
                }
            }
            if self.quiet && step + 1 < path.len() {
                handles.push((ctx.pool_ui[a - 1], ia));
                handles.push((ctx.pool_ui[b - 1], ib));
                continue;
            }
            // C02: the asserted pair itself is equal as soon as union returns
            match guard(|| eg.eq(&ia, &ib)) {
                Ok(true) => {}
                Ok(false) => self.finding("C02", "asserted pair not equal after union returned", &key, path, step + 1, "",
                    json!({"a": ctx.uni.terms[a-1].show(), "b": ctx.uni.terms[b-1].show()})),
                Err(p) => {
                    self.stats.panics += 1;
                    self.finding("C08", "panic in eq", &key, path, step + 1, &site_key(&p), json!({"msg": p.msg}));
                    return None;
                }
            }
            // C14: equal classes share one datum - read the datum through every OLD id right after
            // the union, before anything canonicalises the handles (path compression)
            let old_data: Vec<Option<(u64, u64)>> = handles.iter().map(|(_, h)| guard(|| N::datum(&eg, h.id)).ok().flatten()).collect();
            for ((ui, h), od) in handles.iter().zip(old_data.iter()) {
                let Some(od) = od else { continue };
                if let Ok(Some(nd)) = guard(|| N::datum(&eg, eg.find_applied_id(h).id)) {
                    if *od != nd {
                        self.finding("C14", "datum read through an old id differs from the datum of its class", &key, path, step + 1, "",
                            json!({"handle_of": ctx.us[*ui].show(), "through_old_id": [od.0, od.1], "class": [nd.0, nd.1]}));
                        break;
                    }
                }
            }
            handles.push((ctx.pool_ui[a - 1], ia));
            handles.push((ctx.pool_ui[b - 1], ib));

            let us_exprs_owned: Vec<RecExpr<T>>;
            let us_exprs: &[RecExpr<T>] = if self.lazy {
                us_exprs_owned = self.ctx.us.iter().map(|t| to_recexpr::<T>(t, self.nm).unwrap()).collect();
                &us_exprs_owned
            } else {
                self.us_exprs
            };
            let obs = match guard(|| observe(&eg, us_exprs)) {
                Ok(o) => o,
                Err(p) => {
                    self.stats.panics += 1;
                    self.finding("C08", "panic in lookup/eq", &key, path, step + 1, &site_key(&p), json!({"msg": p.msg}));
                    return None;
                }
            };

            // C13: progress measure, old handles, old equalities
            if !progress_ok(&prev_progress, &obs.progress) {
                self.finding("C13", "progress measure moved in the wrong direction", &key, path, step + 1, "",
                    json!({"before": prev_progress, "after": obs.progress}));
            }
            prev_progress = obs.progress;
            for (hi, (ui, h)) in handles.iter().enumerate() {
                // the first query after a change is the interesting one (later ones may find a compressed path):
                // half of the handles are compared first, the other half canonicalised first
                let eq_first = (hi + self.nth / 4) % 2 == 0;
                let r = guard(|| {
                    let cur = obs.found[*ui].clone();
                    let same0 = if eq_first { cur.as_ref().map(|c| if hi % 4 < 2 { eg.eq(c, h) } else { eg.eq(h, c) }) } else { None };
                    let f = eg.find_applied_id(h);
                    let ff = eg.find_applied_id(&f);
                    let same = if eq_first { same0 } else { cur.as_ref().map(|c| eg.eq(c, h)) };
                    (f.clone(), ff == f, same, f.slots().is_subset(&h.slots()))
                });
                match r {
                    Err(p) => {
                        self.stats.panics += 1;
                        self.finding("C13", "old handle unusable (panic)", &key, path, step + 1, &site_key(&p),
                            json!({"msg": p.msg, "term": ctx.us[*ui].show()}));
                        return None;
                    }
                    Ok((_f, idem, same, shrink)) => {
                        if !idem {
                            self.finding("C08", "canonicalising twice differs from once", &key, path, step + 1, "",
                                json!({"term": ctx.us[*ui].show()}));
                        }
                        if same != Some(true) {
                            self.finding("C13", "old handle no longer denotes its term", &key, path, step + 1, "",
                                json!({"term": ctx.us[*ui].show(), "lookup": format!("{same:?}")}));
                        }
                        if !shrink {
                            self.finding("C13", "slot set of an old handle grew", &key, path, step + 1, "",
                                json!({"term": ctx.us[*ui].show()}));
                        }
                    }
                }
            }
            // built-in consistency check + public-API consistency (C08).  Deliberately AFTER the old handles were
            // probed: check() walks the whole union-find and compresses every path, which would repair a stale entry
            // before anybody looks at it.
            if let Err(p) = guard(|| eg.check()) {
                // the e-graph is still usable: go on, so that the other properties are judged too
                self.stats.panics += 1;
                self.finding("C08", "EGraph::check() fails", &key, path, step + 1, &site_key(&p), json!({"msg": p.msg}));
            }
            match guard(|| dump_consistent(&eg)) {
                Ok(Ok(())) => {}
                Ok(Err(s)) => {
                    if s.starts_with("INVOCATION") {
                        // the node is in its class, but under different arguments: the class is
                        // equal to a permuted/renamed invocation of itself and does not know it
                        self.finding("C02", "e-node of a class looks up to a different invocation of that class", &key, path, step + 1, "", json!({"msg": s}));
                    } else {
                        self.finding("C08", "inconsistent structure", &key, path, step + 1, "", json!({"msg": s}));
                    }
                }
                Err(p) => {
                    self.stats.panics += 1;
                    self.finding("C08", "panic while reading the e-graph", &key, path, step + 1, &site_key(&p), json!({"msg": p.msg}));
                    return None;
                }
            }

            if let Some(po) = &prev_obs {
                // equal before => equal now (on the OLD invocations)
                let mut last: HashMap<usize, usize> = HashMap::new();
                for i in 0..po.cls.len() {
                    let c = po.cls[i];
                    if c == 0 {
                        continue;
                    }
                    if let Some(j) = last.insert(c, i) {
                        let (x, y) = (po.found[j].clone().unwrap(), po.found[i].clone().unwrap());
                        match guard(|| eg.eq(&x, &y)) {
                            Ok(true) => {}
                            Ok(false) => self.finding("C13", "equality lost", &key, path, step + 1, "",
                                json!({"t": ctx.us[j].show(), "u": ctx.us[i].show()})),
                            Err(p) => {
                                self.stats.panics += 1;
                                self.finding("C13", "old handle unusable (panic in eq)", &key, path, step + 1, &site_key(&p), json!({"msg": p.msg}));
                                return None;
                            }
                        }
                    }
                }
            }

            // comparison with the specification's observation of this state
            let Some(spec) = ctx.states.get(&key) else {
                prev_obs = Some(obs);
                continue;
            };
            self.stats.comparisons += 1;
            let is_final = step + 1 == path.len();
            let lazy = self.mode == "lazy" || is_final;
            self.compare(spec, &obs, &eg, &key, path, step + 1, lazy);
            self.handles_sound(spec, &obs, &eg, &handles, &key, path, step + 1);
            self.check_analysis(spec, &obs, &eg, &key, path, step + 1);
            if is_final {
                final_fp = Some(self.fingerprint(&obs, &eg));
                self.check_matching(spec, &obs, &eg, &key, path, step + 1);
                if self.full_match && !spec.mt.is_empty() {
                    self.check_match_sets(spec, &obs, &eg, &key, path, step + 1);
                }
                self.check_extraction(spec, &obs, &eg, &key, path, step + 1);
                self.check_old_handles_extract(&eg, &handles, &key, path, step + 1);
                self.check_old_handle_nodes(spec, &obs, &mut eg, &handles, &key, path, step + 1);
                self.readd(spec, &obs, &mut eg, &key, path, step + 1);
            }
            prev_obs = Some(obs);
        }
        final_fp
    }

    /// C01 for invocations returned EARLIER: an old handle of term t may compare equal to the
    /// current invocation of term u only if t and u are congruent in the specification.
    fn handles_sound<N: AnKind>(&mut self, spec: &SpecObs, obs: &ImplObs, eg: &EGraph<T, N>, handles: &[(usize, AppliedId)],
                                key: &[usize], path: &[(usize, bool)], step: usize) {
        let ctx = self.ctx;
        let mut reps: Vec<usize> = Vec::new(); // first member of every implementation class
        let mut seen = std::collections::BTreeSet::new();
        for i in 0..ctx.us.len() {
            if obs.cls[i] != 0 && spec.lab[i] != 0 && seen.insert(obs.cls[i]) { reps.push(i); }
        }
        for (ui, h) in handles {
            if spec.lab[*ui] == 0 { continue; }
            for i in &reps {
                let f = obs.found[*i].clone().unwrap();
                if guard(|| eg.eq(h, &f)).unwrap_or(false) && spec.lab[*ui] != spec.lab[*i] {
                    self.finding("C01", "an earlier invocation compares equal to a term its own term is not congruent to", key, path, step, "",
                        json!({"handle_of": ctx.us[*ui].show(), "equal_to": ctx.us[*i].show(), "pair": [ctx.us[*ui], ctx.us[*i]]}));
                    return;
                }
            }
        }
    }

    fn fingerprint<N: AnKind>(&self, obs: &ImplObs, eg: &EGraph<T, N>) -> Fingerprint {
        let ctx = self.ctx;
        let mut slots = Vec::new();
        let mut syms = Vec::new();
        for ti in 0..ctx.uni.terms.len() {
            match &obs.found[ctx.pool_ui[ti]] {
                None => {
                    slots.push(None);
                    syms.push(None);
                }
                Some(a) => {
                    slots.push(Some(slot_names(a, self.nm)));
                    syms.push(guard(|| sym_count(eg, a)).ok());
                }
            }
        }
        let has_match = FP_PATTERNS.iter().map(|ptxt| {
            let pat = Pattern::<T>::parse(&concrete(ptxt, self.nm)).expect("pattern pool must parse");
            guard(|| !ematch_all(eg, &pat).is_empty()).ok()
        }).collect();
        Fingerprint { cls: obs.cls.clone(), nlive: obs.nlive, slots, syms, has_match }
    }

    fn compare<N: AnKind>(
        &mut self,
        spec: &SpecObs,
        obs: &ImplObs,
        eg: &EGraph<T, N>,
        key: &[usize],
        path: &[(usize, bool)],
        step: usize,
        lazy: bool,
    ) {
        let ctx = self.ctx;
        let n = ctx.us.len();
        // C09: lookup succeeds exactly for represented terms
        for i in 0..n {
            let rep = spec.lab[i] != 0;
            let found = obs.found[i].is_some();
            if rep && !found {
                self.finding("C09", "lookup fails for a represented term", key, path, step, "",
                    json!({"term": ctx.us[i].show()}));
                break;
            }
            if lazy && !rep && found {
                self.finding("C09", "lookup succeeds for a term that is not represented", key, path, step, "",
                    json!({"term": ctx.us[i].show()}));
                break;
            }
        }
        // C01: an implementation class never spans two specification classes
        // C02: a specification class never spans two implementation classes
        let mut impl2spec: BTreeMap<usize, (usize, usize)> = BTreeMap::new();
        let mut spec2impl: BTreeMap<usize, (usize, usize)> = BTreeMap::new();
        let mut c01 = false;
        let mut c02 = false;
        for i in 0..n {
            let (ic, sc) = (obs.cls[i], spec.lab[i]);
            if ic == 0 || sc == 0 {
                continue;
            }
            if let Some((s0, j)) = impl2spec.get(&ic) {
                if *s0 != sc && !c01 {
                    c01 = true;
                    self.finding("C01", "reported equal but not implied", key, path, step, "",
                        json!({"t": ctx.us[*j].show(), "u": ctx.us[i].show(), "pair": [ctx.us[*j], ctx.us[i]]}));
                }
            } else {
                impl2spec.insert(ic, (sc, i));
            }
            if let Some((i0, j)) = spec2impl.get(&sc) {
                if *i0 != ic && !c02 {
                    c02 = true;
                    self.finding("C02", "implied equality not reported", key, path, step, "",
                        json!({"t": ctx.us[*j].show(), "u": ctx.us[i].show()}));
                }
            } else {
                spec2impl.insert(sc, (ic, i));
            }
        }
        // slots and symmetries of the pool terms
        for ti in 0..ctx.uni.terms.len() {
            let ui = ctx.pool_ui[ti];
            let Some(a) = &obs.found[ui] else { continue };
            if spec.lab[ui] == 0 {
                continue;
            }
            let names = slot_names(a, self.nm);
            if names.iter().any(|x| x.is_none()) {
                self.finding("C09", "returned invocation mentions a slot that is not in the term", key, path, step, "",
                    json!({"term": ctx.us[ui].show(), "slots": format!("{:?}", a.slots())}));
                continue;
            }
            let got: BTreeSet<u32> = names.iter().map(|x| x.unwrap()).collect();
            let want: BTreeSet<u32> = spec.slots[ti].iter().copied().collect();
            if ctx.us[ui].fv().len() as u32 >= ctx.uni.n {
                continue; // no spare name: the specification cannot decide redundancy
            }
            if !want.is_subset(&got) {
                // the dropped slot x is redundant iff t = t[x <-> z] for a spare name z: that pair
                // lets the alarm be confirmed (or refuted) by a checked proof
                let x = *want.difference(&got).next().unwrap();
                let names = ctx.us[ui].names();
                let z = (1..=ctx.uni.n).find(|k| !names.contains(k));
                let pair = z.map(|z| {
                    let sw = |k: u32| if k == x { z } else if k == z { x } else { k };
                    json!([ctx.us[ui], ctx.us[ui].ren(&sw)])
                });
                let mut d = json!({"term": ctx.us[ui].show(), "impl_slots": got, "spec_nonredundant": want});
                if let Some(p) = pair { d["pair"] = p; }
                self.finding("C01", "class dropped a slot its terms depend on", key, path, step, "", d);
            }
            if !got.is_subset(&want) {
                self.finding("C02", "redundant slot not detected", key, path, step, "",
                    json!({"term": ctx.us[ui].show(), "impl_slots": got, "spec_nonredundant": want}));
            }
            if got == want {
                match guard(|| sym_count(eg, a)) {
                    Ok(c) => {
                        if c > spec.syms[ti] {
                            // exhibit one permuted copy the implementation accepts and the specification does not
                            let fvs = ctx.us[ui].fv();
                            let mut d = json!({"term": ctx.us[ui].show(), "impl": c, "spec": spec.syms[ti]});
                            for p in perms(fvs.len()) {
                                let m = |k: u32| fvs.iter().position(|x| *x == k).map(|i| fvs[p[i]]).unwrap_or(k);
                                let tp = ctx.us[ui].ren(&m);
                                if let Some(j) = ctx.us_index.get(&tp) {
                                    if spec.lab[*j] != spec.lab[ui] && obs.cls[*j] == obs.cls[ui] && obs.cls[ui] != 0 {
                                        d["pair"] = json!([ctx.us[ui], tp]);
                                        break;
                                    }
                                }
                            }
                            self.finding("C01", "more symmetries than derivable", key, path, step, "", d);
                        }
                        if c < spec.syms[ti] {
                            self.finding("C02", "derivable symmetry missing", key, path, step, "",
                                json!({"term": ctx.us[ui].show(), "impl": c, "spec": spec.syms[ti]}));
                        }
                    }
                    Err(p) => {
                        self.stats.panics += 1;
                        self.finding("C08", "panic in eq on a permuted invocation", key, path, step, &site_key(&p), json!({"msg": p.msg}));
                    }
                }
            }
        }
        if lazy && obs.nlive != spec.ncls {
            let prop = if obs.nlive > spec.ncls { "C02" } else { "C01" };
            self.finding(prop, "number of live classes differs from the specification", key, path, step, "",
                json!({"impl": obs.nlive, "spec": spec.ncls}));
        }
    }

    /// C09 at the final state: inserting represented terms creates nothing and agrees with
    /// lookup; renaming the term renames the result.
    /// C14: the datum of every class is the least fixpoint of make/merge = the specification's
    /// MinCost for astsize and depth; equal classes share one datum (read through any handle).
    fn check_analysis<N: AnKind>(&mut self, spec: &SpecObs, obs: &ImplObs, eg: &EGraph<T, N>, key: &[usize], path: &[(usize, bool)], step: usize) {
        let ctx = self.ctx;
        for i in 0..ctx.us.len() {
            let Some(a) = &obs.found[i] else { continue };
            if spec.lab[i] == 0 { continue; }
            let id = a.id;
            let Ok(d) = guard(|| N::datum(eg, id)) else {
                self.finding("C14", "panic reading analysis data", key, path, step, "", json!({"term": ctx.us[i].show()}));
                return;
            };
            if let Ok(Some(ls)) = guard(|| N::leaves(eg, id)) {
                // join-semilattice analysis in which every e-node contributes: set of leaf operators
                if spec.leaf.is_empty() { return; }
                self.stats.data += 1;
                let want: BTreeSet<String> = spec.leaf[spec.lab[i] - 1].iter().cloned().collect();
                if ls != want {
                    self.finding("C14", "analysis datum is not the join of make over the e-nodes of the class (leaf operators)", key, path, step, "",
                        json!({"term": ctx.us[i].show(), "impl": ls, "spec": want}));
                    return;
                }
                continue;
            }
            let Some((size, depth)) = d else { return };
            self.stats.data += 1;
            let want = (spec.cost[0][i], spec.cost[3][i]);
            if (size, depth) != want {
                self.finding("C14", "analysis datum is not the fixpoint of make/merge over the class", key, path, step, "",
                    json!({"term": ctx.us[i].show(), "impl_size_depth": [size, depth], "spec_size_depth": [want.0, want.1]}));
                return;
            }
        }
    }

    /// C06: extraction from every represented invocation with three strictly monotone cost functions
    fn check_extraction<N: AnKind>(&mut self, spec: &SpecObs, obs: &ImplObs, eg: &EGraph<T, N>, key: &[usize], path: &[(usize, bool)], step: usize) {
        let ctx = self.ctx;
        for (ci, cname) in COST_NAMES.iter().enumerate().take(3) {
            let cname: &'static str = cname;
            let ex = match guard(|| Extractor::<T, NamedCost>::new(eg, NamedCost(cname))) {
                Ok(e) => e,
                Err(p) => {
                    self.stats.panics += 1;
                    self.finding("C06", "Extractor::new panics", key, path, step, &site_key(&p), json!({"msg": p.msg, "cost_fn": cname}));
                    self.finding("C08", "panic in Extractor::new", key, path, step, &site_key(&p), json!({"msg": p.msg, "cost_fn": cname}));
                    return;
                }
            };
            for i in 0..ctx.us.len() {
                let Some(a) = &obs.found[i] else { continue };
                if spec.lab[i] == 0 { continue; }
                self.stats.extractions += 1;
                let r = guard(|| {
                    let t = ex.extract(a, eg);
                    let best = ex.get_best_cost::<N>(&eg.find_applied_id(a));
                    let c = NamedCost(cname).cost_rec(&t);
                    let back = lookup_rec_expr(&t, eg);
                    let same = back.as_ref().map(|b| eg.eq(b, a));
                    (t, best, c, same)
                });
                match r {
                    Err(p) => {
                        self.stats.panics += 1;
                        self.finding("C06", "extract panics", key, path, step, &site_key(&p),
                            json!({"msg": p.msg, "cost_fn": cname, "term": ctx.us[i].show(), "class_slots": a.slots().len(), "term_fv": ctx.us[i].fv().len()}));
                        self.finding("C08", "panic in Extractor::extract", key, path, step, &site_key(&p), json!({"msg": p.msg, "term": ctx.us[i].show()}));
                        return;
                    }
                    Ok((t, best, c, same)) => {
                        if same != Some(true) {
                            self.finding("C06", "extracted term is not represented in the queried invocation", key, path, step, "",
                                json!({"query": ctx.us[i].show(), "extracted": t.to_string(), "lookup": format!("{same:?}"), "cost_fn": cname}));
                            return;
                        }
                        if c != best {
                            self.finding("C06", "recomputed cost of the extracted term differs from the reported best cost", key, path, step, "",
                                json!({"query": ctx.us[i].show(), "extracted": t.to_string(), "recomputed": c, "reported": best, "cost_fn": cname}));
                            return;
                        }
                        if best != spec.cost[ci][i] {
                            self.finding("C06", "extracted cost is not the minimum over the class", key, path, step, "",
                                json!({"query": ctx.us[i].show(), "extracted": t.to_string(), "impl": best, "spec_min": spec.cost[ci][i], "cost_fn": cname}));
                            return;
                        }
                        // The result shows the names the extractor uses for the binders of this class.  A query whose argument is
                        // named like such a binder is legal (any slot may be an argument) and must not be captured by it.
                        if ci == 0 && !a.slots().is_empty() {
                            let mut bound: Vec<Slot> = Vec::new();
                            fn bound_slots(e: &RecExpr<T>, out: &mut Vec<Slot>) { out.extend(e.node.private_slot_occurrences()); for c in &e.children { bound_slots(c, out); } }
                            bound_slots(&t, &mut bound);
                            bound.retain(|s2| !a.slots().contains(s2));
                            if let Some(b) = bound.first().copied() {
                                let k0 = a.m.keys_vec()[0];
                                let q = AppliedId::new(a.id, a.m.iter().map(|(k, v)| (k, if k == k0 { b } else { v })).collect());
                                // (only if the renamed invocation is still an injective one)
                                if q.m.is_bijection() {
                                    let r2 = guard(|| { let t2 = ex.extract(&q, eg); let back = lookup_rec_expr(&t2, eg); (t2.to_string(), back.map(|x| eg.eq(&x, &q))) });
                                    match r2 {
                                        Ok((_, Some(true))) => {}
                                        Ok((t2, other)) => {
                                            self.finding("C06", "extraction from an invocation whose argument is named like a binder of an earlier result is not represented in it (capture)", key, path, step, "",
                                                json!({"query": ctx.us[i].show(), "first_result": t.to_string(), "argument": b.to_string(), "second_result": t2, "lookup": format!("{other:?}")}));
                                            return;
                                        }
                                        Err(p) => { self.stats.panics += 1; self.finding("C06", "extract panics", key, path, step, &site_key(&p), json!({"msg": p.msg, "term": ctx.us[i].show()})); return; }
                                    }
                                }
                            }
                        }
                        // free slots: arguments of the query or brand-new
                        let mut bn = BackNamer::new(self.nm, 900);
                        let tt = bn.term(&t);
                        let args: Vec<Option<u32>> = a.slots().iter().map(|s| self.nm.name(*s)).collect();
                        for x in tt.fv() {
                            if x < 900 && !args.contains(&Some(x)) {
                                self.finding("C06", "extracted term has a free user slot that is not an argument of the query", key, path, step, "",
                                    json!({"query": ctx.us[i].show(), "extracted": tt.show(), "cost_fn": cname}));
                                return;
                            }
                        }
                    }
                }
            }
        }
    }

    /// C13: every invocation ever returned (possibly of a class that was merged away since) can
    /// still be extracted from, and the extracted term is represented in exactly that invocation.
    fn check_old_handles_extract<N: AnKind>(&mut self, eg: &EGraph<T, N>, handles: &[(usize, AppliedId)], key: &[usize], path: &[(usize, bool)], step: usize) {
        let ctx = self.ctx;
        let ex = match guard(|| Extractor::<T, NamedCost>::new(eg, NamedCost("astsize"))) {
            Ok(e) => e,
            Err(_) => return, // reported by C06
        };
        for (ui, h) in handles {
            let r = guard(|| {
                let t = ex.extract(h, eg);
                let back = lookup_rec_expr(&t, eg);
                (t.to_string(), back.as_ref().map(|b| eg.eq(b, h)))
            });
            match r {
                Ok((_, Some(true))) => {}
                Ok((t, other)) => {
                    self.finding("C13", "term extracted from an old invocation is not represented in that invocation", key, path, step, "",
                        json!({"handle_of": ctx.us[*ui].show(), "extracted": t, "lookup": format!("{other:?}")}));
                    return;
                }
                Err(p) => {
                    self.stats.panics += 1;
                    self.finding("C13", "old handle unusable (panic in extract)", key, path, step, &site_key(&p), json!({"msg": p.msg, "handle_of": ctx.us[*ui].show()}));
                    return;
                }
            }
        }
    }

    /// C05: every reported match binds all variables and denotes a represented term; matching
    /// changes nothing observable.
    fn check_matching<N: AnKind>(&mut self, _spec: &SpecObs, obs: &ImplObs, eg: &EGraph<T, N>, key: &[usize], path: &[(usize, bool)], step: usize) {
        let ctx = self.ctx;
        let before = (obs.progress, obs.nnodes);
        let reps = match guard(|| representatives(eg)) {
            Ok(r) => r,
            Err(p) => { self.finding("C08", "panic in enodes()", key, path, step, &site_key(&p), json!({"msg": p.msg})); return; }
        };
        for ptxt in PATTERNS.iter() {
            let txt = concrete(ptxt, self.nm);
            let pat = Pattern::<T>::parse(&txt).expect("pattern pool must parse");
            let mut vars = Vec::new();
            pattern_vars(&pat, &mut vars);
            let substs = match guard(|| ematch_all(eg, &pat)) {
                Ok(s) => s,
                Err(p) => { self.stats.panics += 1; self.finding("C05", "ematch_all panics", key, path, step, &site_key(&p), json!({"msg": p.msg, "pattern": ptxt})); return; }
            };
            for sb in &substs {
                self.stats.matches += 1;
                if vars.iter().any(|v| !sb.contains_key(v)) {
                    self.finding("C05", "a pattern variable is not bound", key, path, step, "", json!({"pattern": ptxt}));
                    return;
                }
                let r = guard(|| instantiate(&pat, sb, &reps).map(|t| (t.to_string(), lookup_rec_expr(&t, eg).is_some())));
                match r {
                    Ok(Some((_, true))) => {}
                    Ok(Some((t, false))) => { self.finding("C05", "instantiated match is not represented", key, path, step, "", json!({"pattern": ptxt, "instance": t})); return; }
                    Ok(None) => { self.finding("C05", "a matched class has no finite term", key, path, step, "", json!({"pattern": ptxt})); return; }
                    Err(p) => { self.stats.panics += 1; self.finding("C05", "panic while looking up an instantiated match", key, path, step, &site_key(&p), json!({"msg": p.msg, "pattern": ptxt})); return; }
                }
            }
        }
        for mtxt in MULTIPATTERNS.iter() {
            let txt = concrete(mtxt, self.nm);
            let mp = match MultiPattern::<T>::parse(&txt) { Ok(m) => m, Err(_) => continue };
            let Ok(res) = guard(|| N::multi(eg, &mp)) else {
                self.stats.panics += 1;
                self.finding("C05", "multi_ematch panics", key, path, step, "", json!({"pattern": mtxt}));
                return;
            };
            let Some(substs) = res else { break };
            // clauses, re-parsed one by one to get at their structure
            let clauses: Vec<(String, Pattern<T>)> = txt.split(',').map(|c| {
                let v: Vec<&str> = c.split("==").collect();
                (v[0].trim()[1..].to_string(), Pattern::<T>::parse(v[1]).unwrap())
            }).collect();
            for sb in &substs {
                self.stats.matches += 1;
                for (v, rhs) in &clauses {
                    let mut vars = vec![v.clone()];
                    pattern_vars(rhs, &mut vars);
                    if vars.iter().any(|x| !sb.contains_key(x)) {
                        self.finding("C05", "a multi-pattern variable is not bound", key, path, step, "", json!({"pattern": mtxt}));
                        return;
                    }
                    let Pattern::ENode(n, ch) = rhs else { continue };
                    let mut node = n.clone();
                    for (slot, c) in node.applied_id_occurrences_mut().into_iter().zip(ch.iter()) {
                        let Pattern::PVar(cv) = c else { continue };
                        *slot = sb[cv].clone();
                    }
                    let r = guard(|| eg.lookup(&node).map(|x| eg.eq(&x, &sb[v])));
                    match r {
                        Ok(Some(true)) => {}
                        Ok(other) => { self.finding("C05", "multi-pattern equation does not hold between the bound classes", key, path, step, "", json!({"pattern": mtxt, "clause_var": v, "lookup": format!("{other:?}")})); return; }
                        Err(p) => { self.stats.panics += 1; self.finding("C05", "panic while checking a multi-pattern equation", key, path, step, &site_key(&p), json!({"msg": p.msg, "pattern": mtxt})); return; }
                    }
                }
            }
        }
        let after = (progress_of(eg), eg.total_number_of_nodes());
        if before != after {
            self.finding("C05", "matching changed the e-graph", key, path, step, "", json!({"before": format!("{before:?}"), "after": format!("{after:?}")}));
        }
    }


    /// C04 / C05 against spec/EMatch.tla: the complete set of substitutions `ematch_all` returns,
    /// grounded in the name pool and reduced to orbit-least form, equals the specification's set.
    fn check_match_sets<N: AnKind>(&mut self, spec: &SpecObs, obs: &ImplObs, eg: &EGraph<T, N>, key: &[usize], path: &[(usize, bool)], step: usize) {
        let ctx = self.ctx;
        let n_pool = ctx.uni.n;
        // universe terms by the (canonical) class id of their invocation
        let mut by_id: HashMap<Id, Vec<usize>> = HashMap::new();
        for (i, f) in obs.found.iter().enumerate() {
            if let Some(a) = f { by_id.entry(eg.find_applied_id(a).id).or_default().push(i); }
        }
        let uses_all_names = |t: &[usize; 3]| t.iter().any(|l| *l != 0 && ctx.us[*l - 1].fv().len() as u32 == n_pool);
        for (q, ps) in ctx.patterns.iter().enumerate() {
            if q >= spec.mt.len() { break; }
            let txt = concrete(&ps.text, self.nm);
            let pat = Pattern::<T>::parse(&txt).expect("pattern pool must parse");
            let substs = match guard(|| ematch_all(eg, &pat)) {
                Ok(s) => s,
                Err(p) => { self.stats.panics += 1; self.finding("C05", "ematch_all panics", key, path, step, &site_key(&p), json!({"msg": p.msg, "pattern": ps.text})); return; }
            };
            self.stats.match_sets += 1;
            let fix: Vec<usize> = (0..ctx.bijs.len()).filter(|b| ps.free.iter().all(|x| ctx.bijs[*b][*x as usize - 1] == *x)).collect();
            let canon = |t: [usize; 3]| -> [usize; 3] {
                let mut best = t;
                for b in &fix {
                    let mut u = [0usize; 3];
                    for k in 0..3 { if t[k] != 0 { u[k] = spec.lab[ctx.ren_idx[*b][t[k] - 1]]; } }
                    if u < best { best = u; }
                }
                best
            };
            let mut got: BTreeSet<[usize; 3]> = BTreeSet::new();
            let mut anomalies = 0;
            let ungroundable_before = self.stats.ungroundable;
            'subst: for sb in &substs {
                if ps.vars.iter().any(|v| !sb.contains_key(&v[1..])) { continue; } // reported by check_matching
                // ground the slots of the substitution: free pattern slots keep their names, the
                // others (bound pattern slots, uncovered slots) get the remaining names injectively
                let mut slots: BTreeSet<Slot> = BTreeSet::new();
                for v in &ps.vars { slots.extend(sb[&v[1..]].slots().iter().copied()); }
                // the specification's ground instances also name every bound pattern slot (distinct from everything else)
                for k in &ps.bound { slots.insert(self.nm.slot(*k)); }
                let mut gamma: Vec<(Slot, Slot)> = Vec::new();
                let mut rest: Vec<u32> = (1..=n_pool).filter(|x| !ps.free.contains(x)).collect();
                for s in &slots {
                    match self.nm.name(*s) {
                        Some(k) if ps.free.contains(&k) => gamma.push((*s, *s)),
                        _ => {
                            if rest.is_empty() { self.stats.ungroundable += 1; continue 'subst; }
                            gamma.push((*s, self.nm.slot(rest.remove(0))));
                        }
                    }
                }
                let gm: SlotMap = gamma.into_iter().collect();
                let mut t = [0usize; 3];
                for v in &ps.vars {
                    let k = match v.as_str() { "?a" => 0, "?b" => 1, _ => 2 };
                    let a = sb[&v[1..]].clone();
                    let r = guard(|| {
                        let m: SlotMap = a.slots().iter().map(|s| (*s, gm[*s])).collect();
                        let ag = a.apply_slotmap(&m);
                        let id = eg.find_applied_id(&ag).id;
                        by_id.get(&id).and_then(|c| c.iter().find(|i| eg.eq(obs.found[**i].as_ref().unwrap(), &ag)).copied())
                    });
                    match r {
                        Ok(Some(i)) if spec.lab[i] != 0 => t[k] = spec.lab[i],
                        Ok(Some(_)) => { anomalies += 1; continue 'subst; }  // the implementation represents a term the specification does not: C01/C09 report that
                        Ok(None) => {
                            self.finding("C05", "a match binds a variable to an invocation that denotes no term of the universe", key, path, step, "",
                                json!({"pattern": ps.text, "var": v, "value": format!("{a:?}")}));
                            return;
                        }
                        Err(p) => { self.stats.panics += 1; self.finding("C05", "panic while grounding a match", key, path, step, &site_key(&p), json!({"msg": p.msg, "pattern": ps.text})); return; }
                    }
                }
                if uses_all_names(&t) { continue; }
                got.insert(canon(t));
                self.stats.match_tuples += 1;
            }
            let want: BTreeSet<[usize; 3]> = spec.mt[q].iter().copied().filter(|t| !uses_all_names(t)).collect();
            let show = |t: &[usize; 3]| -> Vec<String> { t.iter().map(|l| if *l == 0 { "-".to_string() } else { ctx.us[*l - 1].show() }).collect() };
            // Both directions are judged only in states without redundant slots: there the universe terms of a class use
            // exactly the class's names, so the specification can spell a match iff it can be grounded here.  With a
            // redundant slot the only spellings of a class may carry a name the class does not depend on, and a pattern
            // with two binders can run out of pool names in the specification although the real match needs fewer
            // (false alarm met in the thorough tier: sum(f(2,3); 2 2. p(1,1)) after p(1,1) = h(d, p(3,2))).  Reported
            // matches in such states are still instantiated and looked up (check_matching).
            if !spec.nored { continue; }
            if let Some(t) = got.difference(&want).next() {
                self.finding("C05", "ematch_all reports a match that is not an instance of the pattern in the congruence", key, path, step, "",
                    json!({"pattern": ps.text, "bindings": show(t), "reported": got.len(), "expected": want.len()}));
                return;
            }
            if anomalies == 0 && self.stats.ungroundable == ungroundable_before {
                if let Some(t) = want.difference(&got).next() {
                    self.finding("C04", "a represented instance of the pattern is not matched", key, path, step, "",
                        json!({"pattern": ps.text, "bindings": show(t), "reported": got.len(), "expected": want.len()}));
                    return;
                }
            }
        }
    }

    /// C09 with invocations that were handed out EARLIER: an e-node whose children are old handles (of classes that may
    /// since have been merged away, have lost slots or gained symmetries) denotes the same term as before; `lookup` must
    /// find it exactly when `add` creates nothing, and both must return the invocation of the term.
    fn check_old_handle_nodes<N: AnKind>(&mut self, spec: &SpecObs, obs: &ImplObs, eg: &mut EGraph<T, N>, handles: &[(usize, AppliedId)],
                                         key: &[usize], path: &[(usize, bool)], step: usize) {
        let ctx = self.ctx;
        let mut first: HashMap<usize, &AppliedId> = HashMap::new();
        for (ui, h) in handles { first.entry(*ui).or_insert(h); }
        for i in 0..ctx.us.len() {
            if spec.lab[i] == 0 || ctx.us[i].ch.is_empty() { continue; }
            let Some(found) = obs.found[i].clone() else { continue };
            let kids: Vec<Option<&&AppliedId>> = ctx.us[i].ch.iter().map(|c| ctx.us_index.get(&c.t).and_then(|j| first.get(j))).collect();
            if kids.iter().any(|k| k.is_none()) { continue; }
            let ex = if self.lazy { to_recexpr::<T>(&ctx.us[i], self.nm).unwrap() } else { self.us_exprs[i].clone() };
            let mut node = ex.node.clone();
            for (r, k) in node.applied_id_occurrences_mut().into_iter().zip(kids.iter()) { *r = (**k.unwrap()).clone(); }
            self.stats.readds += 1;
            let before = (progress_of(eg), eg.total_number_of_nodes());
            let r = guard(|| {
                let l = eg.lookup(&node);
                let le = l.as_ref().map(|a| eg.eq(a, &found));
                let a = eg.add(node.clone());
                let ae = eg.eq(&a, &found);
                (l.is_some(), le, ae)
            });
            let after = (progress_of(eg), eg.total_number_of_nodes());
            match r {
                Err(p) => {
                    self.stats.panics += 1;
                    self.finding("C08", "panic in lookup/add of an e-node built from earlier invocations", key, path, step, &site_key(&p), json!({"msg": p.msg, "term": ctx.us[i].show()}));
                    return;
                }
                Ok((lsome, le, ae)) => {
                    if !lsome {
                        self.finding("C09", "lookup fails for a represented e-node whose children are earlier invocations", key, path, step, "", json!({"term": ctx.us[i].show()}));
                        return;
                    }
                    if le != Some(true) || !ae {
                        self.finding("C09", "lookup / add of an e-node built from earlier invocations does not return the term's invocation", key, path, step, "",
                            json!({"term": ctx.us[i].show(), "lookup_equal": format!("{le:?}"), "add_equal": ae}));
                        return;
                    }
                    if before != after {
                        self.finding("C09", "adding a represented e-node built from earlier invocations changed the e-graph", key, path, step, "",
                            json!({"term": ctx.us[i].show(), "before": format!("{before:?}"), "after": format!("{after:?}")}));
                        return;
                    }
                }
            }
        }
    }

    fn readd<N: AnKind>(
        &mut self,
        spec: &SpecObs,
        obs: &ImplObs,
        eg: &mut EGraph<T, N>,
        key: &[usize],
        path: &[(usize, bool)],
        step: usize,
    ) {
        let ctx = self.ctx;
        let n = ctx.us.len();
        for i in 0..n {
            if spec.lab[i] == 0 {
                continue;
            }
            let Some(found) = obs.found[i].clone() else { continue };
            self.stats.readds += 1;
            let before = (progress_of(eg), eg.total_number_of_nodes());
            let ex = if self.lazy { to_recexpr::<T>(&self.ctx.us[i], self.nm).unwrap() } else { self.us_exprs[i].clone() };
            let r = guard(|| {
                let h = add_x(eg, ex);
                let same = eg.eq(&h, &found);
                (h, same)
            });
            match r {
                Err(p) => {
                    self.stats.panics += 1;
                    self.finding("C08", "panic when re-inserting a represented term", key, path, step, &site_key(&p),
                        json!({"msg": p.msg, "term": ctx.us[i].show()}));
                    return;
                }
                Ok((h, same)) => {
                    if let Err(d) = returned_slots_ok(&h, &ctx.us[i], self.nm) {
                        self.finding("C09", "add_expr returned an invocation with a slot that is not a free slot of the term", key, path, step, "",
                            json!({"term": ctx.us[i].show(), "returned": d}));
                    }
                    let after = (progress_of(eg), eg.total_number_of_nodes());
                    if before != after {
                        self.finding("C09", "inserting a represented term changed the e-graph", key, path, step, "",
                            json!({"term": ctx.us[i].show(), "before": format!("{before:?}"), "after": format!("{after:?}")}));
                        return;
                    }
                    if !same {
                        self.finding("C09", "add_expr and lookup_rec_expr disagree", key, path, step, "",
                            json!({"term": ctx.us[i].show()}));
                    }
                    // (add_syn_expr returns the SYNTACTIC invocation, which keeps the slots that are redundant semantically)
                    if !*SYN_ADD.get().unwrap_or(&false) && h.slots() != found.slots() {
                        self.finding("C09", "add_expr and lookup_rec_expr return different slots", key, path, step, "",
                            json!({"term": ctx.us[i].show()}));
                    }
                }
            }
            // equivariance of lookup under transpositions of the pool
            let names = ctx.us[i].names();
            for x in 1..=ctx.uni.n {
                for y in (x + 1)..=ctx.uni.n {
                    if !names.contains(&x) && !names.contains(&y) {
                        continue;
                    }
                    let sw = |k: u32| if k == x { y } else if k == y { x } else { k };
                    let tj = ctx.us[i].ren(&sw);
                    let Some(j) = ctx.us_index.get(&tj) else { continue };
                    let Some(fj) = obs.found[*j].clone() else { continue };
                    let m: SlotMap = found
                        .slots()
                        .iter()
                        .filter_map(|s| self.nm.name(*s).map(|k| (*s, self.nm.slot(sw(k)))))
                        .collect();
                    if m.len() != found.slots().len() {
                        continue; // already reported above
                    }
                    let renamed = found.apply_slotmap(&m);
                    match guard(|| eg.eq(&renamed, &fj)) {
                        Ok(true) => {}
                        Ok(false) => {
                            self.finding("C09", "renaming the term does not rename the result", key, path, step, "",
                                json!({"term": ctx.us[i].show(), "renamed": tj.show()}));
                            return;
                        }
                        Err(p) => {
                            self.stats.panics += 1;
                            self.finding("C08", "panic in eq", key, path, step, &site_key(&p), json!({"msg": p.msg}));
                            return;
                        }
                    }
                }
            }
        }
    }
}

fn main() {
    let args: Vec<String> = std::env::args().collect();
    let uni: Universe = serde_json::from_str(&std::fs::read_to_string(&args[1]).unwrap()).unwrap();
    let table: Table = serde_json::from_str(&std::fs::read_to_string(&args[2]).unwrap()).unwrap();
    let namings_mode = args.get(3).cloned().unwrap_or("rotate".into());
    let threads: usize = args.get(4).and_then(|s| s.parse().ok()).unwrap_or(8);
    let seed = env_u64("VERIF_SEED", 0) as usize;
    let maxpaths = env_u64("VERIF_MAXPATHS", 48) as usize;

    let us_index: HashMap<Term, usize> = table.us.iter().cloned().enumerate().map(|(i, t)| (t, i)).collect();
    let pool_ui: Vec<usize> = uni.terms.iter().map(|t| *us_index.get(t).expect("pool term not in universe")).collect();
    let mut states = HashMap::new();
    for s in &table.states {
        states.insert(s.key.clone(), s.clone());
    }
    // jobs: (set of equations, order given by TLC's simulation or None = all orders)
    let traces = table.traces.clone();
    let keys: Vec<Vec<usize>> = if traces.is_empty() {
        let mut k: Vec<Vec<usize>> = states.keys().filter(|k| !k.is_empty()).cloned().collect();
        k.sort();
        k
    } else {
        traces.clone()
    };
    let sim = !traces.is_empty();
    // bijections of the name pool and their action on the universe (orbit-least form of matches)
    let bijs: Vec<Vec<u32>> = if table.patterns.is_empty() { Vec::new() } else {
        perms(uni.n as usize).into_iter().map(|p| p.into_iter().map(|x| x as u32 + 1).collect()).collect()
    };
    let ren_idx: Vec<Vec<usize>> = bijs.iter().map(|b| table.us.iter().map(|t| {
        *us_index.get(&t.ren(&|x| b[x as usize - 1])).expect("universe not closed under bijections")
    }).collect()).collect();
    let ctx = Arc::new(Ctx { uni, us: table.us.clone(), us_index, pool_ui, states, patterns: table.patterns.clone(), bijs, ren_idx });
    let next = Arc::new(AtomicUsize::new(0));
    let findings: Arc<Mutex<Vec<Finding>>> = Arc::new(Mutex::new(Vec::new()));
    let totals: Arc<Mutex<(Stats, usize, usize)>> = Arc::new(Mutex::new((Stats::default(), 0, 0)));
    install_hook();
    start_watchdog(env_u64("VERIF_WATCHDOG", 90));

    let mut hs = Vec::new();
    for _ in 0..threads {
        let ctx = ctx.clone();
        let next = next.clone();
        let findings = findings.clone();
        let totals = totals.clone();
        let keys = keys.clone();
        let namings_mode = namings_mode.clone();
        hs.push(std::thread::spawn(move || loop {
            let j = next.fetch_add(1, Ordering::SeqCst);
            if j >= keys.len() {
                break;
            }
            let key = keys[j].clone();
            let kinds: Vec<&str> = if namings_mode == "all" {
                NAMINGS.to_vec()
            } else if namings_mode == "rotate+fresh" {
                // the rotating naming plus the two under which a user name spells exactly the next fresh slot (capture)
                let mut v = vec![NAMINGS[(j + seed) % NAMINGS.len()]];
                for k in ["fresh-next", "fresh-lazy"] { if !v.contains(&k) { v.push(k); } }
                v
            } else {
                vec![NAMINGS[(j + seed) % NAMINGS.len()]]
            };
            // each (state, naming) job runs in a fresh thread: fresh slot table, fresh counters
            let mut fps: Vec<(String, String, Vec<(usize, bool)>, Fingerprint)> = Vec::new();
            let mut job_findings = Vec::new();
            let mut job_stats = Stats::default();
            for kind in kinds {
                let ctx2 = ctx.clone();
                let key2 = key.clone();
                let kind = kind.to_string();
                let h = std::thread::spawn(move || {
                    let nm = Naming::new(&kind, ctx2.uni.n);
                    let us_exprs: Vec<RecExpr<T>> = ctx2.us.iter().map(|t| to_recexpr::<T>(t, &nm).unwrap()).collect();
                    let pool_exprs: Vec<RecExpr<T>> = ctx2.uni.terms.iter().map(|t| to_recexpr::<T>(t, &nm).unwrap()).collect();
                    let mut out_f = Vec::new();
                    let mut out_fp = Vec::new();
                    let mut stats = Stats::default();
                    let k = key2.len();
                    let mut count = 0;
                    // long histories: the order TLC walked (every prefix has a specification state), with a few
                    // orientations, plus shuffled orders (only their final state is compared)
                    let ords: Vec<Vec<usize>> = if sim {
                        let mut v: Vec<Vec<usize>> = vec![(0..k).collect(); 4];
                        let mut x = (seed as u64 + 1).wrapping_mul(6364136223846793005).wrapping_add(key2.iter().sum::<usize>() as u64);
                        for _ in 0..4 {
                            let mut o: Vec<usize> = (0..k).collect();
                            for i in (1..k).rev() { x = x.wrapping_mul(6364136223846793005).wrapping_add(1442695040888963407); o.swap(i, (x >> 33) as usize % (i + 1)); }
                            v.push(o);
                        }
                        v
                    } else { orders(k) };
                    let mut flipseed = (seed as u64 + 7).wrapping_mul(2862933555777941757).wrapping_add(k as u64);
                    'outer: for (oi, ord) in ords.into_iter().enumerate() {
                        let flipset: Vec<usize> = if sim {
                            flipseed = flipseed.wrapping_mul(6364136223846793005).wrapping_add(1442695040888963407);
                            vec![match oi { 0 => 0, 1 => (1usize << k) - 1, _ => (flipseed >> 20) as usize % (1usize << k) }]
                        } else { (0..(1usize << k)).collect() };
                        for flips in flipset {
                            for mode in ["lazy", "eager"] {
                                if mode == "eager" && (flips + ord[0]) % 3 != 0 {
                                    continue; // a third of the paths additionally with up-front insertion
                                }
                                if count >= maxpaths {
                                    break 'outer;
                                }
                                count += 1;
                                let path: Vec<(usize, bool)> =
                                    ord.iter().enumerate().map(|(p, o)| (key2[*o], (flips >> p) & 1 == 1)).collect();
                                // "fresh-lazy": a new naming per path, its `$f<next>` name is parsed
                                // when the first term that mentions it is inserted
                                let lazy = kind == "fresh-lazy";
                                let nm_path = if lazy { Naming::new(&kind, ctx2.uni.n) } else { nm.clone() };
                                let mut pr = PathRun { ctx: &ctx2, nm: &nm_path, us_exprs: &us_exprs, pool_exprs: &pool_exprs, lazy, mode, full_match: count == 1, quiet: count % 4 == 3, nth: count, findings: Vec::new(), stats: Stats::default() };
                                let fp = match count % 3 { 0 => pr.run::<()>(&path), 1 => pr.run::<SizeDepth>(&path), _ => pr.run::<Leaves>(&path) };
                                stats.paths += pr.stats.paths;
                                stats.steps += pr.stats.steps;
                                stats.panics += pr.stats.panics;
                                stats.comparisons += pr.stats.comparisons;
                                stats.readds += pr.stats.readds;
                                stats.extractions += pr.stats.extractions;
                                stats.data += pr.stats.data;
                                stats.matches += pr.stats.matches;
                                stats.match_sets += pr.stats.match_sets;
                                stats.ungroundable += pr.stats.ungroundable;
                                stats.match_tuples += pr.stats.match_tuples;
                                out_f.extend(pr.findings);
                                if let Some(fp) = fp {
                                    out_fp.push((kind.clone(), mode.to_string(), path, fp));
                                }
                            }
                        }
                    }
                    (out_f, out_fp, stats)
                });
                let (f, fp, st) = h.join().expect("job thread died");
                job_findings.extend(f);
                fps.extend(fp);
                job_stats.paths += st.paths;
                job_stats.steps += st.steps;
                job_stats.panics += st.panics;
                job_stats.comparisons += st.comparisons;
                job_stats.readds += st.readds;
                job_stats.extractions += st.extractions;
                job_stats.data += st.data;
                job_stats.matches += st.matches;
                job_stats.match_sets += st.match_sets;
                job_stats.ungroundable += st.ungroundable;
                job_stats.match_tuples += st.match_tuples;
            }
            // C12 / C11: every linearisation and every naming of one state give one observation
            let mut c12 = 0;
            let mut c11 = 0;
            if let Some((k0, m0, p0, f0)) = fps.first().cloned() {
                for (k, m, p, f) in fps.iter().skip(1) {
                    if *f != f0 {
                        let same_naming = *k == k0;
                        let prop = if same_naming { "C12" } else { "C11" };
                        if (same_naming && c12 == 0) || (!same_naming && c11 == 0) {
                            job_findings.push(Finding {
                                kind: "finding",
                                prop: prop.to_string(),
                                what: if same_naming { "two linearisations of the same equations give different observations".into() } else { "two namings of the same history give different observations".into() },
                                universe: ctx.uni.name.clone(),
                                key: { let mut k = key.clone(); k.sort(); k },
                                path: p.clone(),
                                step: p.len(),
                                naming: k.clone(),
                                mode: m.clone(),
                                site: String::new(),
                                detail: json!({"other_path": p0, "other_naming": k0, "other_mode": m0,
                                    "nlive": [f0.nlive, f.nlive], "cls_equal": f0.cls == f.cls,
                                    "slots_equal": f0.slots == f.slots, "syms_equal": f0.syms == f.syms, "matches_equal": f0.has_match == f.has_match}),
                            });
                        }
                        if same_naming { c12 += 1 } else { c11 += 1 }
                    }
                }
            }
            findings.lock().unwrap().extend(job_findings);
            let mut t = totals.lock().unwrap();
            t.0.paths += job_stats.paths;
            t.0.steps += job_stats.steps;
            t.0.panics += job_stats.panics;
            t.0.comparisons += job_stats.comparisons;
            t.0.readds += job_stats.readds;
            t.0.extractions += job_stats.extractions;
            t.0.data += job_stats.data;
            t.0.matches += job_stats.matches;
            t.0.match_sets += job_stats.match_sets;
            t.0.ungroundable += job_stats.ungroundable;
            t.0.match_tuples += job_stats.match_tuples;
            t.1 += 1;
            t.2 += fps.len();
        }));
    }
    for h in hs {
        h.join().unwrap();
    }
    let f = findings.lock().unwrap();
    for x in f.iter() {
        println!("{}", serde_json::to_string(x).unwrap());
    }
    let t = totals.lock().unwrap();
    println!(
        "{}",
        json!({"kind":"summary","universe": ctx.uni.name, "states": t.1, "paths": t.0.paths, "steps": t.0.steps,
               "panics": t.0.panics, "comparisons": t.0.comparisons, "readds": t.0.readds, "extractions": t.0.extractions, "analysis_data_checked": t.0.data, "matches_checked": t.0.matches, "match_sets_compared": t.0.match_sets, "ground_matches_compared": t.0.match_tuples, "matches_not_groundable_in_pool": t.0.ungroundable,
               "completed_paths": t.2, "findings": f.len(), "universe_terms": ctx.us.len()})
    );
}
