//! Confirmation of C01 alarms (false-alarm discipline): for a finding "the implementation reports
//! t = u but the specification does not derive it", rebuild the same history in the explanations
//! build and ask the implementation to EXPLAIN t = u.  The proof DAG is then checked by
//! Proofs.tla (TraceProofs): a proof that checks means the equality IS derivable from the asserted
//! equations, i.e. the specification's bounded closure was incomplete - a tool error, never a
//! VIOLATION.  A panic or an invalid proof leaves the alarm standing.
//! usage: ex_confirm <universe.json> <findings.json> <out.ndjson>
//! findings.json = [{"path":[[eq,flip]..],"step":n,"naming":"..","pair":[TERM,TERM]}..]

#[cfg(not(feature = "explanations"))]
fn main() {
    eprintln!("ex_confirm needs the explanations feature");
    std::process::exit(2);
}
#[cfg(feature = "explanations")]
fn main() {
    imp::main();
}

#[cfg(feature = "explanations")]
mod imp {
    use serde::Deserialize;
    use serde_json::{json, Value};
    use slotted_egraphs::*;
    use std::collections::HashMap;
    use std::io::Write;
    use verif_harness::langs::T;
    use verif_harness::term::*;
    use verif_harness::util::*;

    #[derive(Deserialize)]
    struct Universe {
        #[serde(rename = "N")]
        n: u32,
        terms: Vec<Term>,
        eqs: Vec<(usize, usize)>,
        #[serde(default)]
        base: Vec<usize>,
    }
    #[derive(Deserialize)]
    struct Finding { path: Vec<(usize, bool)>, step: usize, naming: String, pair: (Term, Term) }

    fn ser(peq: &ProvenEq, eg: &EGraph<T>, bn: &mut BackNamer, memo: &mut HashMap<*const ProvenEqRaw, usize>, dag: &mut Vec<Value>) -> usize {
        let key = std::sync::Arc::as_ptr(peq);
        if let Some(i) = memo.get(&key) { return *i; }
        let (rule, prem, just): (&str, Vec<usize>, String) = match peq.proof() {
            Proof::Explicit(ExplicitProof(j)) => ("explicit", vec![], j.clone().unwrap_or_default()),
            Proof::Reflexivity(_) => ("refl", vec![], String::new()),
            Proof::Symmetry(SymmetryProof(p)) => ("sym", vec![ser(p, eg, bn, memo, dag)], String::new()),
            Proof::Transitivity(TransitivityProof(p, q)) => { let a = ser(p, eg, bn, memo, dag); let b = ser(q, eg, bn, memo, dag); ("trans", vec![a, b], String::new()) }
            Proof::Congruence(CongruenceProof(ps)) => ("cong", ps.iter().map(|p| ser(p, eg, bn, memo, dag)).collect(), String::new()),
        };
        let eq = peq.equ();
        let l = bn.term(&eg.get_syn_expr(&eq.l));
        let r = bn.term(&eg.get_syn_expr(&eq.r));
        let id = dag.len() + 1;
        dag.push(json!({"id": id, "rule": rule, "l": l, "r": r, "prem": prem, "just": just}));
        memo.insert(key, id);
        id
    }

    pub fn main() {
        let args: Vec<String> = std::env::args().collect();
        let uni: Universe = serde_json::from_str(&std::fs::read_to_string(&args[1]).unwrap()).unwrap();
        let fs: Vec<Finding> = serde_json::from_str(&std::fs::read_to_string(&args[2]).unwrap()).unwrap();
        let mut out = std::io::BufWriter::new(std::fs::File::create(&args[3]).unwrap());
        install_hook();
        for f in &fs {
            let kind = if f.naming == "fresh-lazy" { "fresh-next" } else { f.naming.as_str() };
            let nm = Naming::new(kind, uni.n);
            let mut asserted = Vec::new();
            let r = guard(|| {
                let mut eg: EGraph<T> = EGraph::default();
                let mut asserted = Vec::new();
                for b in &uni.base { eg.add_syn_expr(to_recexpr::<T>(&uni.terms[*b - 1], &nm).unwrap()); }
                for (e, flip) in f.path.iter().take(f.step.max(1)) {
                    let (mut a, mut b) = uni.eqs[*e - 1];
                    if *flip { std::mem::swap(&mut a, &mut b); }
                    let ia = eg.add_syn_expr(to_recexpr::<T>(&uni.terms[a - 1], &nm).unwrap());
                    let ib = eg.add_syn_expr(to_recexpr::<T>(&uni.terms[b - 1], &nm).unwrap());
                    eg.union_justified(&ia, &ib, Some(format!("eq{e}")));
                    asserted.push(json!({"a": uni.terms[a - 1], "b": uni.terms[b - 1], "j": format!("eq{e}")}));
                }
                let (t, u) = (to_recexpr::<T>(&f.pair.0, &nm).unwrap(), to_recexpr::<T>(&f.pair.1, &nm).unwrap());
                let ia = eg.add_syn_expr(t.clone());
                let ib = eg.add_syn_expr(u.clone());
                if !eg.eq(&ia, &ib) { return (asserted, None); }
                let peq = eg.explain_equivalence(t, u);
                let mut bn = BackNamer::new(&nm, 100);
                let mut dag = Vec::new();
                let root = ser(&peq, &eg, &mut bn, &mut HashMap::new(), &mut dag);
                (asserted, Some((root, dag)))
            });
            let mut ev = json!({"ev":"proof","query":{"l":f.pair.0,"r":f.pair.1},"naming":kind});
            match r {
                Ok((a, Some((root, dag)))) => { asserted = a; ev["panic"] = json!(false); ev["root"] = json!(root); ev["dag"] = json!(dag); ev["status"] = json!("explained"); }
                Ok((a, None)) => { asserted = a; ev["panic"] = json!(true); ev["root"] = json!(0); ev["dag"] = json!([]); ev["status"] = json!("not-equal-in-explanations-build"); }
                Err(p) => { ev["panic"] = json!(true); ev["root"] = json!(0); ev["dag"] = json!([]); ev["status"] = json!(format!("panic: {} at {}", p.msg, p.site)); }
            }
            ev["asserted"] = json!(asserted);
            ev["msg"] = json!(""); ev["site"] = json!("");
            // fields of the flat-explanation events of TraceProofs.tla (not used here)
            ev["flat_status"] = json!("none"); ev["flat_msg"] = json!(""); ev["plain"] = json!(false);
            ev["flat"] = json!({"start": ev["query"]["l"].clone(), "steps": []});
            writeln!(out, "{ev}").unwrap();
        }
        println!("{}", json!({"kind":"summary","confirmations":fs.len()}));
    }
}
