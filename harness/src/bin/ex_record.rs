//! C07: record explanations of the real library (explanations build) for TraceProofs.tla.
//! usage: ex_record <universe.json> <table.json> <out.ndjson> <maxpairs>
//! For every TLC state of the universe: assert its equations with union_justified on terms
//! inserted with add_syn_expr, then ask explain_equivalence for pairs of equal pool terms and
//! serialise every proof DAG (rule, both sides as TERMS via get_syn_expr, premises, justification).

#[cfg(not(feature = "explanations"))]
fn main() {
    eprintln!("ex_record needs the explanations feature");
    std::process::exit(2);
}

#[cfg(feature = "explanations")]
fn main() {
    imp::main();
}

#[cfg(feature = "explanations")]
mod imp {
    use serde::Deserialize;
    use serde_json::{json, Value};
    use slotted_egraphs::*;
    use std::collections::HashMap;
    use std::io::Write;
    use verif_harness::langs::T;
    use verif_harness::term::*;
    use verif_harness::util::*;

    #[derive(Deserialize)]
    struct Universe {
        name: String,
        #[serde(rename = "N")]
        n: u32,
        terms: Vec<Term>,
        eqs: Vec<(usize, usize)>,
        #[serde(default)]
        base: Vec<usize>,
    }
    #[derive(Deserialize)]
    struct SpecObs { key: Vec<usize> }
    #[derive(Deserialize)]
    struct Table { states: Vec<SpecObs> }

    fn ser(peq: &ProvenEq, eg: &EGraph<T>, bn: &mut BackNamer, memo: &mut HashMap<*const ProvenEqRaw, usize>, dag: &mut Vec<Value>) -> usize {
        let key = std::sync::Arc::as_ptr(peq);
        if let Some(i) = memo.get(&key) { return *i; }
        let (rule, prem, just): (&str, Vec<usize>, String) = match peq.proof() {
            Proof::Explicit(ExplicitProof(j)) => ("explicit", vec![], j.clone().unwrap_or_default()),
            Proof::Reflexivity(_) => ("refl", vec![], String::new()),
            Proof::Symmetry(SymmetryProof(p)) => ("sym", vec![ser(p, eg, bn, memo, dag)], String::new()),
            Proof::Transitivity(TransitivityProof(p, q)) => { let a = ser(p, eg, bn, memo, dag); let b = ser(q, eg, bn, memo, dag); ("trans", vec![a, b], String::new()) }
            Proof::Congruence(CongruenceProof(ps)) => ("cong", ps.iter().map(|p| ser(p, eg, bn, memo, dag)).collect(), String::new()),
        };
        let eq = peq.equ();
        let l = bn.term(&eg.get_syn_expr(&eq.l));
        let r = bn.term(&eg.get_syn_expr(&eq.r));
        let id = dag.len() + 1;
        dag.push(json!({"id": id, "rule": rule, "l": l, "r": r, "prem": prem, "just": just}));
        memo.insert(key, id);
        id
    }

    pub fn main() {
        let args: Vec<String> = std::env::args().collect();
        let uni: Universe = serde_json::from_str(&std::fs::read_to_string(&args[1]).unwrap()).unwrap();
        let table: Table = serde_json::from_str(&std::fs::read_to_string(&args[2]).unwrap()).unwrap();
        let mut out = std::io::BufWriter::new(std::fs::File::create(&args[3]).unwrap());
        let maxpairs: usize = args[4].parse().unwrap();
        let seed = env_u64("VERIF_SEED", 0) as usize;
        install_hook();
        start_watchdog(env_u64("VERIF_WATCHDOG", 90));
        let (mut nproofs, mut npanics, mut nbuild_panics, mut nstates) = (0usize, 0usize, 0usize, 0usize);
        for (si, st) in table.states.iter().enumerate() {
            if st.key.is_empty() { continue; }
            nstates += 1;
            for variant in 0..2usize {
                tick(&format!("{} state {:?} variant {}", uni.name, st.key, variant));
                let kind = NAMINGS[(si + variant + seed) % NAMINGS.len()];
                let nm = Naming::new(kind, uni.n);
                let ex = |ti: usize| to_recexpr::<T>(&uni.terms[ti - 1], &nm).unwrap();
                let mut key = st.key.clone();
                if variant == 1 { key.reverse(); }
                let mut asserted: Vec<Value> = Vec::new();
                let built = guard(|| {
                    let mut eg: EGraph<T> = EGraph::default();
                    let mut asserted = Vec::new();
                    // the universe's base terms (parents, other spellings of congruent nodes) are there from the start
                    let mut base = uni.base.clone();
                    if variant == 1 { base.reverse(); }
                    for t in base { eg.add_syn_expr(ex(t)); }
                    for (k, e) in key.iter().enumerate() {
                        let (mut a, mut b) = uni.eqs[*e - 1];
                        if (variant + k) % 2 == 1 { std::mem::swap(&mut a, &mut b); }
                        let ia = eg.add_syn_expr(ex(a));
                        let ib = eg.add_syn_expr(ex(b));
                        eg.union_justified(&ia, &ib, Some(format!("eq{e}")));
                        asserted.push(json!({"a": uni.terms[a - 1], "b": uni.terms[b - 1], "j": format!("eq{e}")}));
                    }
                    (eg, asserted)
                });
                let mut eg = match built {
                    Ok((eg, a)) => { asserted = a; eg }
                    Err(p) => {
                        nbuild_panics += 1;
                        // a panic inside the explanation machinery while the history is built (a proof of a congruence or of
                        // a symmetry could not be constructed) is a failure of C07's subject; other panics belong to C08
                        if p.site.contains("src/explain/") {
                            println!("{}", json!({"kind":"finding","prop":"C07","what":"building the history panics inside the explanation machinery","site":p.site,
                                "universe":uni.name,"detail":{"msg":p.msg,"key":st.key,"naming":kind,"variant":variant}}));
                        }
                        continue;
                    }
                };
                // rule applications: rewrite rules whose applier logs every instantiated pair and
                // asserts it with the rule's name as justification (= union_instantiations)
                if variant == 1 {
                    let rules: Vec<(&str, String, String)> = vec![
                        ("hcomm", "(h ?a ?b)".into(), "(h ?b ?a)".into()),
                        ("gg", "(g (g ?a))".into(), "?a".into()),
                        ("hidem", "(h ?a ?a)".into(), "?a".into()),
                        ("lamh", format!("(lam {} (h ?a (v {})))", nm.slot(1), nm.slot(1)), format!("(lam {} (h (v {}) ?a))", nm.slot(1), nm.slot(1))),
                        ("fswap", format!("(f {} {})", nm.slot(1), nm.slot(2)), format!("(f {} {})", nm.slot(2), nm.slot(1))),
                    ];
                    let pick = (si + seed) % rules.len();
                    let r2 = guard(|| {
                        let mut logged = Vec::new();
                        for round in 0..2 {
                            let (name, l, r) = &rules[(pick + round) % rules.len()];
                            let (lp, rp) = (Pattern::<T>::parse(l).unwrap(), Pattern::<T>::parse(r).unwrap());
                            for sb in ematch_all(&eg, &lp) {
                                let la = pattern_subst(&mut eg, &lp, &sb);
                                let lb = pattern_subst(&mut eg, &rp, &sb);
                                let mut bn = BackNamer::new(&nm, 100);
                                let (ta, tb) = (bn.term(&eg.get_syn_expr(&la)), bn.term(&eg.get_syn_expr(&lb)));
                                eg.union_justified(&la, &lb, Some(name.to_string()));
                                logged.push(json!({"a": ta, "b": tb, "j": name}));
                                if logged.len() > 40 { break; }
                            }
                        }
                        logged
                    });
                    match r2 {
                        Ok(l) => asserted.extend(l),
                        Err(_) => { nbuild_panics += 1; continue; }
                    }
                }
                // candidate pairs: pool terms the implementation considers equal
                let mut pairs = Vec::new();
                let found: Vec<Option<AppliedId>> = uni.terms.iter().enumerate().map(|(i, _)| lookup_rec_expr(&ex(i + 1), &eg)).collect();
                for i in 0..uni.terms.len() {
                    for j in 0..uni.terms.len() {
                        if i == j { continue; }
                        if let (Some(a), Some(b)) = (&found[i], &found[j]) {
                            if guard(|| eg.eq(a, b)).unwrap_or(false) { pairs.push((i, j)); }
                        }
                    }
                }
                let step = (pairs.len() / maxpairs.max(1)).max(1);
                for (pi, (i, j)) in pairs.iter().enumerate() {
                    if (pi + si + seed) % step != 0 { continue; }
                    let (ti, tj) = (ex(i + 1), ex(j + 1));
                    let r = guard(|| {
                        let peq = eg.explain_equivalence(ti.clone(), tj.clone());
                        let mut bn = BackNamer::new(&nm, 100);
                        let mut dag = Vec::new();
                        let root = ser(&peq, &eg, &mut bn, &mut HashMap::new(), &mut dag);
                        (root, dag)
                    });
                    nproofs += 1;
                    let base = json!({"ev":"proof","universe":uni.name,"key":key,"naming":kind,"asserted":asserted,
                                      "query":{"l":uni.terms[*i],"r":uni.terms[*j]}});
                    let mut evv = base;
                    match r {
                        Ok((root, dag)) => { evv["panic"] = json!(false); evv["root"] = json!(root); evv["dag"] = json!(dag); evv["msg"] = json!(""); evv["site"] = json!(""); }
                        Err(p) => { npanics += 1; evv["panic"] = json!(true); evv["root"] = json!(0); evv["dag"] = json!([]); evv["msg"] = json!(p.msg); evv["site"] = json!(p.site); }
                    }
                    writeln!(out, "{evv}").unwrap();
                }
            }
        }
        println!("{}", json!({"kind":"summary","universe":uni.name,"states":nstates,"proofs":nproofs,"explain_panics":npanics,"histories_aborted_by_build_panics":nbuild_panics}));
    }
}
