//! C07: record explanations of the real library (explanations build) for TraceProofs.tla.
//! usage: ex_record <universe.json> <table.json> <out.ndjson> <maxpairs>
//!        ex_record <universe.json> <table.json> - <maxpairs> flat-child <state index> <variant> <first pair>   (internal)
//! For every TLC state of the universe: assert its equations with union_justified on terms
//! inserted with add_syn_expr, then ask explain_equivalence for pairs of equal pool terms and
//! serialise every proof DAG (rule, both sides as TERMS via get_syn_expr, premises, justification).

#[cfg(not(feature = "explanations"))]
fn main() {
    eprintln!("ex_record needs the explanations feature");
    std::process::exit(2);
}

#[cfg(feature = "explanations")]
fn main() {
    imp::main();
}

#[cfg(feature = "explanations")]
mod imp {
    use serde::Deserialize;
    use serde_json::{json, Value};
    use slotted_egraphs::*;
    use std::collections::HashMap;
    use std::io::Write;
    use verif_harness::langs::T;
    use verif_harness::term::*;
    use verif_harness::util::*;

    #[derive(Deserialize)]
    struct Universe {
        name: String,
        #[serde(rename = "N")]
        n: u32,
        terms: Vec<Term>,
        eqs: Vec<(usize, usize)>,
        #[serde(default)]
        base: Vec<usize>,
    }
    #[derive(Deserialize)]
    struct SpecObs { key: Vec<usize> }
    #[derive(Deserialize)]
    struct Table { states: Vec<SpecObs> }

    fn ser(peq: &ProvenEq, eg: &EGraph<T>, bn: &mut BackNamer, memo: &mut HashMap<*const ProvenEqRaw, usize>, dag: &mut Vec<Value>) -> usize {
        let key = std::sync::Arc::as_ptr(peq);
        if let Some(i) = memo.get(&key) { return *i; }
        let (rule, prem, just): (&str, Vec<usize>, String) = match peq.proof() {
            Proof::Explicit(ExplicitProof(j)) => ("explicit", vec![], j.clone().unwrap_or_default()),
            Proof::Reflexivity(_) => ("refl", vec![], String::new()),
            Proof::Symmetry(SymmetryProof(p)) => ("sym", vec![ser(p, eg, bn, memo, dag)], String::new()),
            Proof::Transitivity(TransitivityProof(p, q)) => { let a = ser(p, eg, bn, memo, dag); let b = ser(q, eg, bn, memo, dag); ("trans", vec![a, b], String::new()) }
            Proof::Congruence(CongruenceProof(ps)) => ("cong", ps.iter().map(|p| ser(p, eg, bn, memo, dag)).collect(), String::new()),
        };
        let eq = peq.equ();
        let l = bn.term(&eg.get_syn_expr(&eq.l));
        let r = bn.term(&eg.get_syn_expr(&eq.r));
        let id = dag.len() + 1;
        dag.push(json!({"id": id, "rule": rule, "l": l, "r": r, "prem": prem, "just": just}));
        memo.insert(key, id);
        id
    }


    // ---- flat explanations (to_flat_string): one term per line, every line after the first marks the rewritten
    // subterm as `(Rewrite=> <justification> <new subterm>)` / `(Rewrite<= ..)`.  The lines are read with a
    // layout-agnostic S-expression reader (position = index among the non-slot arguments on the way down), the marker
    // is removed and the remaining text is parsed by the library's own RecExpr parser.
    #[derive(Debug, Clone)]
    enum Sx { Atom(String), List(Vec<Sx>) }
    fn sx_parse(toks: &[String], i: &mut usize) -> Option<Sx> {
        let t = toks.get(*i)?.clone();
        *i += 1;
        if t == "(" {
            let mut v = Vec::new();
            loop {
                if toks.get(*i)? == ")" { *i += 1; return Some(Sx::List(v)); }
                v.push(sx_parse(toks, i)?);
            }
        } else if t == ")" { None } else { Some(Sx::Atom(t)) }
    }
    fn sx_tokens(s: &str) -> Vec<String> {
        let mut out = Vec::new();
        let mut cur = String::new();
        for c in s.chars() {
            if c == '(' || c == ')' || c.is_whitespace() {
                if !cur.is_empty() { out.push(std::mem::take(&mut cur)); }
                if c == '(' || c == ')' { out.push(c.to_string()); }
            } else { cur.push(c); }
        }
        if !cur.is_empty() { out.push(cur); }
        out
    }
    fn sx_show(s: &Sx) -> String {
        match s { Sx::Atom(a) => a.clone(), Sx::List(v) => format!("({})", v.iter().map(sx_show).collect::<Vec<_>>().join(" ")) }
    }
    /// removes the rewrite marker(s); collects (position, 1-based among the children, back, justification)
    fn sx_strip(s: &Sx, pos: &mut Vec<usize>, found: &mut Vec<(Vec<usize>, bool, String)>) -> Sx {
        match s {
            Sx::Atom(_) => s.clone(),
            Sx::List(v) => {
                if let Some(Sx::Atom(h)) = v.first() {
                    if (h == "Rewrite=>" || h == "Rewrite<=") && v.len() == 3 {
                        found.push((pos.clone(), h == "Rewrite<=", sx_show(&v[1])));
                        return v[2].clone();
                    }
                }
                let mut out = Vec::new();
                let mut ci = 0usize;
                for (i, e) in v.iter().enumerate() {
                    let is_slot = matches!(e, Sx::Atom(a) if a.starts_with('$'));
                    if i == 0 || is_slot { out.push(e.clone()); continue; }
                    ci += 1;
                    pos.push(ci);
                    out.push(sx_strip(e, pos, found));
                    pos.pop();
                }
                Sx::List(out)
            }
        }
    }
    fn flat_record(text: &str, bn: &mut BackNamer) -> Result<Value, String> {
        let mut lines = text.lines();
        let first = lines.next().ok_or("empty flat explanation")?;
        let start = RecExpr::<T>::parse(first).map_err(|e| format!("first line does not parse: {first}: {e:?}"))?;
        let mut steps = Vec::new();
        for ln in lines {
            let toks = sx_tokens(ln);
            let mut i = 0;
            let sx = sx_parse(&toks, &mut i).ok_or_else(|| format!("line is not an S-expression: {ln}"))?;
            if i != toks.len() { return Err(format!("trailing text in line: {ln}")); }
            let mut found = Vec::new();
            let stripped = sx_strip(&sx, &mut Vec::new(), &mut found);
            if found.len() != 1 { return Err(format!("line has {} rewrite markers: {ln}", found.len())); }
            let (pos, back, just) = found.pop().unwrap();
            let txt = sx_show(&stripped);
            let re = RecExpr::<T>::parse(&txt).map_err(|e| format!("line without its marker does not parse: {txt}: {e:?}"))?;
            steps.push(json!({"pos": pos, "back": back, "just": just, "dst": bn.term(&re)}));
        }
        Ok(json!({"start": bn.term(&start), "steps": steps}))
    }

    struct Built { eg: EGraph<T>, asserted: Vec<Value>, nm: Naming, kind: &'static str, key: Vec<usize> }
    enum BuildErr { Explain(PanicInfo), Other }

    /// one history: the state's equations as justified unions on add_syn_expr terms (variant 1: reversed, other
    /// orientations, plus logged rule applications)
    fn build(uni: &Universe, st: &SpecObs, si: usize, variant: usize, seed: usize) -> Result<Built, BuildErr> {
        let kind = NAMINGS[(si + variant + seed) % NAMINGS.len()];
        let nm = Naming::new(kind, uni.n);
        let mut key = st.key.clone();
        if variant == 1 { key.reverse(); }
        let built = guard(|| {
            let ex = |ti: usize| to_recexpr::<T>(&uni.terms[ti - 1], &nm).unwrap();
            let mut eg: EGraph<T> = EGraph::default();
            let mut asserted = Vec::new();
            // the universe's base terms (parents, other spellings of congruent nodes) are there from the start
            let mut base = uni.base.clone();
            if variant == 1 { base.reverse(); }
            for t in base { eg.add_syn_expr(ex(t)); }
            for (k, e) in key.iter().enumerate() {
                let (mut a, mut b) = uni.eqs[*e - 1];
                if (variant + k) % 2 == 1 { std::mem::swap(&mut a, &mut b); }
                let ia = eg.add_syn_expr(ex(a));
                let ib = eg.add_syn_expr(ex(b));
                eg.union_justified(&ia, &ib, Some(format!("eq{e}")));
                asserted.push(json!({"a": uni.terms[a - 1], "b": uni.terms[b - 1], "j": format!("eq{e}")}));
            }
            (eg, asserted)
        });
        let (mut eg, mut asserted) = match built {
            Ok(x) => x,
            Err(p) => return Err(if p.site.contains("src/explain/") { BuildErr::Explain(p) } else { BuildErr::Other }),
        };
        // rule applications: rewrite rules whose applier logs every instantiated pair and
        // asserts it with the rule's name as justification (= union_instantiations)
        if variant == 1 {
            let rules: Vec<(&str, String, String)> = vec![
                ("hcomm", "(h ?a ?b)".into(), "(h ?b ?a)".into()),
                ("gg", "(g (g ?a))".into(), "?a".into()),
                ("hidem", "(h ?a ?a)".into(), "?a".into()),
                ("lamh", format!("(lam {} (h ?a (v {})))", nm.slot(1), nm.slot(1)), format!("(lam {} (h (v {}) ?a))", nm.slot(1), nm.slot(1))),
                ("fswap", format!("(f {} {})", nm.slot(1), nm.slot(2)), format!("(f {} {})", nm.slot(2), nm.slot(1))),
            ];
            let pick = (si + seed) % rules.len();
            let r2 = guard(|| {
                let mut logged = Vec::new();
                for round in 0..2 {
                    let (name, l, r) = &rules[(pick + round) % rules.len()];
                    let (lp, rp) = (Pattern::<T>::parse(l).unwrap(), Pattern::<T>::parse(r).unwrap());
                    for sb in ematch_all(&eg, &lp) {
                        let la = pattern_subst(&mut eg, &lp, &sb);
                        let lb = pattern_subst(&mut eg, &rp, &sb);
                        let mut bn = BackNamer::new(&nm, 100);
                        let (ta, tb) = (bn.term(&eg.get_syn_expr(&la)), bn.term(&eg.get_syn_expr(&lb)));
                        eg.union_justified(&la, &lb, Some(name.to_string()));
                        logged.push(json!({"a": ta, "b": tb, "j": name}));
                        if logged.len() > 40 { break; }
                    }
                }
                logged
            });
            match r2 {
                Ok(l) => asserted.extend(l),
                Err(_) => return Err(BuildErr::Other),
            }
        }
        Ok(Built { eg, asserted, nm, kind, key })
    }

    /// the pairs of pool terms the implementation considers equal, thinned out to about `maxpairs`
    fn select_pairs(uni: &Universe, b: &Built, si: usize, seed: usize, maxpairs: usize) -> Vec<(usize, usize)> {
        let ex = |ti: usize| to_recexpr::<T>(&uni.terms[ti - 1], &b.nm).unwrap();
        let eg = &b.eg;
        let mut pairs = Vec::new();
        let found: Vec<Option<AppliedId>> = uni.terms.iter().enumerate().map(|(i, _)| lookup_rec_expr(&ex(i + 1), eg)).collect();
        for i in 0..uni.terms.len() {
            for j in 0..uni.terms.len() {
                if i == j { continue; }
                if let (Some(x), Some(y)) = (&found[i], &found[j]) {
                    if guard(|| eg.eq(x, y)).unwrap_or(false) { pairs.push((i, j)); }
                }
            }
        }
        let step = (pairs.len() / maxpairs.max(1)).max(1);
        pairs.into_iter().enumerate().filter(|(pi, _)| (pi + si + seed) % step == 0).map(|(_, p)| p).collect()
    }

    /// internal mode: the flat explanations of ONE history, one JSON line per pair on stdout, each announced by a line
    /// `B <pair index>` - to_flat_string can run forever (the parent kills this process and starts the next pair)
    fn flat_child(uni: &Universe, table: &Table, maxpairs: usize, seed: usize, args: &[String]) {
        let si: usize = args[6].parse().unwrap();
        let variant: usize = args[7].parse().unwrap();
        let first: usize = args[8].parse().unwrap();
        let st = &table.states[si];
        let Ok(mut b) = build(uni, st, si, variant, seed) else { return; };
        let pairs = select_pairs(uni, &b, si, seed, maxpairs);
        let so = std::io::stdout();
        for (pi, (i, j)) in pairs.iter().enumerate() {
            if pi < first { continue; }
            let (ti, tj) = { let ex = |ti: usize| to_recexpr::<T>(&uni.terms[ti - 1], &b.nm).unwrap(); (ex(i + 1), ex(j + 1)) };
            let Ok(peq) = guard(|| b.eg.explain_equivalence(ti.clone(), tj.clone())) else { continue; };
            { let mut o = so.lock(); writeln!(o, "B {pi}").unwrap(); o.flush().unwrap(); }
            let mut evv = json!({"ev":"flat","universe":uni.name,"key":b.key,"naming":b.kind,"variant":variant,"asserted":b.asserted,
                                 "query":{"l":uni.terms[*i],"r":uni.terms[*j]},
                                 "panic":false,"root":0,"dag":[],"msg":"","site":""});
            let none = json!({"start": uni.terms[*i], "steps": []});
            match guard(|| peq.to_flat_string(&b.eg)) {
                Ok(text) => {
                    let mut bn = BackNamer::new(&b.nm, 100);
                    match guard(|| flat_record(&text, &mut bn)) {
                        Ok(Ok(v)) => { evv["flat"] = v; evv["flat_status"] = json!("ok"); evv["flat_msg"] = json!(""); }
                        Ok(Err(m)) => { evv["flat"] = none; evv["flat_status"] = json!("unreadable"); evv["flat_msg"] = json!(format!("{m} || {text}")); }
                        Err(p) => { evv["flat"] = none; evv["flat_status"] = json!("unreadable"); evv["flat_msg"] = json!(format!("{} at {} || {text}", p.msg, p.site)); }
                    }
                }
                Err(p) => { evv["flat"] = none; evv["flat_status"] = json!("panic"); evv["flat_msg"] = json!(format!("{} at {}", p.msg, p.site)); }
            }
            let mut o = so.lock();
            writeln!(o, "{evv}").unwrap();
            o.flush().unwrap();
        }
    }

    /// parent side: run the children of one history until every pair has an event (a pair whose child had to be
    /// killed gets the status "hang")
    fn flat_events(args: &[String], uni: &Universe, b: &Built, pairs: &[(usize, usize)], si: usize, variant: usize, plain: bool, out: &mut impl Write, nhang: &mut usize, nflat: &mut usize) {
        use std::io::BufRead;
        use std::sync::mpsc;
        let limit = std::time::Duration::from_millis(if plain { env_u64("VERIF_FLAT_LIMIT_MS", 5000) } else { 1500 });
        let max_restarts = if plain { 4 } else { 1 };
        let mut first = 0usize;
        let mut restarts = 0;
        while first < pairs.len() && restarts < max_restarts {
            let mut child = std::process::Command::new(std::env::current_exe().unwrap())
                .args([&args[1], &args[2], "-", &args[4], "flat-child", &si.to_string(), &variant.to_string(), &first.to_string()])
                .env("VERIF_WATCHDOG", "100000")
                .stdout(std::process::Stdio::piped()).stderr(std::process::Stdio::null()).spawn().unwrap();
            let so = child.stdout.take().unwrap();
            let (tx, rx) = mpsc::channel::<Option<String>>();
            std::thread::spawn(move || {
                for l in std::io::BufReader::new(so).lines() { if tx.send(l.ok()).is_err() { return; } }
                let _ = tx.send(None);
            });
            let mut begun: Option<usize> = None;
            let mut hung = false;
            loop {
                match rx.recv_timeout(limit) {
                    Ok(Some(l)) => {
                        tick("flat child output");
                        if let Some(n) = l.strip_prefix("B ") { begun = n.trim().parse().ok(); }
                        else if l.starts_with('{') {
                            let mut v: Value = serde_json::from_str(&l).unwrap();
                            v["plain"] = json!(plain);
                            writeln!(out, "{v}").unwrap(); *nflat += 1; begun = None;
                        }
                    }
                    Ok(None) | Err(mpsc::RecvTimeoutError::Disconnected) => break,
                    Err(mpsc::RecvTimeoutError::Timeout) => { hung = true; break; }
                }
            }
            let _ = child.kill();
            let _ = child.wait();
            if !hung { break; }
            restarts += 1;
            match begun {
                Some(pi) => {
                    let (i, j) = pairs[pi];
                    *nhang += 1;
                    let evv = json!({"ev":"flat","universe":uni.name,"key":b.key,"naming":b.kind,"variant":variant,"asserted":b.asserted,
                                     "query":{"l":uni.terms[i],"r":uni.terms[j]},"panic":false,"root":0,"dag":[],"msg":"","site":"",
                                     "plain":plain,"flat":{"start":uni.terms[i],"steps":[]},"flat_status":"hang","flat_msg":"to_flat_string did not return within the limit"});
                    writeln!(out, "{evv}").unwrap();
                    first = pi + 1;
                }
                None => break,       // the child hung while building the history or in explain_equivalence: the parent reports that itself
            }
        }
    }

    pub fn main() {
        let args: Vec<String> = std::env::args().collect();
        let uni: Universe = serde_json::from_str(&std::fs::read_to_string(&args[1]).unwrap()).unwrap();
        let table: Table = serde_json::from_str(&std::fs::read_to_string(&args[2]).unwrap()).unwrap();
        let maxpairs: usize = args[4].parse().unwrap();
        let seed = env_u64("VERIF_SEED", 0) as usize;
        install_hook();
        start_watchdog(env_u64("VERIF_WATCHDOG", 90));
        if args.len() > 5 && args[5] == "flat-child" {
            flat_child(&uni, &table, maxpairs, seed, &args);
            return;
        }
        let flat_on = env_u64("VERIF_FLAT", 1) == 1;
        let plain_states: Vec<usize> = std::env::var("VERIF_FLAT_PLAIN").ok().and_then(|s| serde_json::from_str(&s).ok()).unwrap_or_default();
        let mut out = std::io::BufWriter::new(std::fs::File::create(&args[3]).unwrap());
        let (mut nproofs, mut npanics, mut nbuild_panics, mut nstates) = (0usize, 0usize, 0usize, 0usize);
        let (mut nflat, mut nflat_hangs) = (0usize, 0usize);
        for (si, st) in table.states.iter().enumerate() {
            if st.key.is_empty() { continue; }
            nstates += 1;
            for variant in 0..2usize {
                tick(&format!("{} state {:?} variant {}", uni.name, st.key, variant));
                let mut b = match build(&uni, st, si, variant, seed) {
                    Ok(b) => b,
                    Err(BuildErr::Explain(p)) => {
                        nbuild_panics += 1;
                        // a panic inside the explanation machinery while the history is built (a proof of a congruence or of
                        // a symmetry could not be constructed) is a failure of C07's subject; other panics belong to C08
                        println!("{}", json!({"kind":"finding","prop":"C07","what":"building the history panics inside the explanation machinery","site":p.site,
                            "universe":uni.name,"detail":{"msg":p.msg,"key":st.key,"naming":NAMINGS[(si + variant + seed) % NAMINGS.len()],"variant":variant}}));
                        continue;
                    }
                    Err(BuildErr::Other) => { nbuild_panics += 1; continue; }
                };
                let pairs = select_pairs(&uni, &b, si, seed, maxpairs);
                for (i, j) in pairs.iter() {
                    let (ti, tj) = { let ex = |ti: usize| to_recexpr::<T>(&uni.terms[ti - 1], &b.nm).unwrap(); (ex(i + 1), ex(j + 1)) };
                    let r = guard(|| {
                        let peq = b.eg.explain_equivalence(ti.clone(), tj.clone());
                        let mut bn = BackNamer::new(&b.nm, 100);
                        let mut dag = Vec::new();
                        let root = ser(&peq, &b.eg, &mut bn, &mut HashMap::new(), &mut dag);
                        (root, dag)
                    });
                    nproofs += 1;
                    let mut evv = json!({"ev":"proof","universe":uni.name,"key":b.key,"naming":b.kind,"variant":variant,"asserted":b.asserted,
                                      "query":{"l":uni.terms[*i],"r":uni.terms[*j]},
                                      "plain":false,"flat":{"start":uni.terms[*i],"steps":[]},"flat_status":"none","flat_msg":""});
                    match r {
                        Ok((root, dag)) => { evv["panic"] = json!(false); evv["root"] = json!(root); evv["dag"] = json!(dag); evv["msg"] = json!(""); evv["site"] = json!(""); }
                        Err(p) => { npanics += 1; evv["panic"] = json!(true); evv["root"] = json!(0); evv["dag"] = json!([]); evv["msg"] = json!(p.msg); evv["site"] = json!(p.site); }
                    }
                    writeln!(out, "{evv}").unwrap();
                }
                // the second rendering of the proofs of this history: flat explanations, produced in a child process
                // (every history of a state the specification calls plain - no redundant slot, no symmetry -, a sample of the others)
                let plain = plain_states.contains(&si);
                if flat_on && !pairs.is_empty() && (plain || (si + seed) % 24 == 0) {
                    flat_events(&args, &uni, &b, &pairs, si, variant, plain, &mut out, &mut nflat_hangs, &mut nflat);
                }
            }
        }
        out.flush().unwrap();
        println!("{}", json!({"kind":"summary","universe":uni.name,"states":nstates,"proofs":nproofs,"explain_panics":npanics,
                              "flat":nflat,"flat_hangs":nflat_hangs,"histories_aborted_by_build_panics":nbuild_panics}));
    }
}
