//! C04: every represented instance of a rule's left side fires.
//! usage: fire_replay <universe.json> <table.json> <threads>
//! For every TLC state (set of balanced alias unions) of a fire universe: build the pre-state
//! (planted variants + unions), apply the rule once, and require for every instance whose
//! left side the SPECIFICATION says is represented (possibly only up to equality) that the
//! right side is represented afterwards and equal to it.  States in which the specification
//! derives a redundant slot are outside the documented scope and skipped (counted).

use serde::Deserialize;
use serde_json::json;
use slotted_egraphs::*;
use std::collections::HashMap;
use std::sync::atomic::{AtomicUsize, Ordering};
use std::sync::{Arc, Mutex};
use verif_harness::langs::T;
use verif_harness::term::*;
use verif_harness::util::*;

#[derive(Deserialize)]
struct Rule { name: String, l: Term, r: Term }
#[derive(Deserialize)]
struct Instance { l: usize, r: usize }
#[derive(Deserialize)]
struct Universe {
    name: String,
    #[serde(rename = "N")]
    n: u32,
    terms: Vec<Term>,
    eqs: Vec<(usize, usize)>,
    base: Vec<usize>,
    rule: Rule,
    instances: Vec<Instance>,
}
#[derive(Deserialize, Clone)]
struct SpecObs { key: Vec<usize>, lab: Vec<usize>, slots: Vec<Vec<u32>> }
#[derive(Deserialize)]
struct Table { us: Vec<Term>, states: Vec<SpecObs> }

fn pat_text(t: &Term, nm: &Naming) -> String {
    if t.op.starts_with('?') { return t.op.clone(); }
    if t.sl.is_empty() && t.ch.is_empty() { return t.op.clone(); }
    let mut s = format!("({}", t.op);
    for x in &t.sl { s += &format!(" {}", nm.slot(*x)); }
    for c in &t.ch {
        for x in &c.bd { s += &format!(" {}", nm.slot(*x)); }
        s += " ";
        s += &pat_text(&c.t, nm);
    }
    s + ")"
}

fn main() {
    let args: Vec<String> = std::env::args().collect();
    let uni: Arc<Universe> = Arc::new(serde_json::from_str(&std::fs::read_to_string(&args[1]).unwrap()).unwrap());
    let table: Arc<Table> = Arc::new(serde_json::from_str(&std::fs::read_to_string(&args[2]).unwrap()).unwrap());
    let threads: usize = args[3].parse().unwrap();
    install_hook();
    start_watchdog(env_u64("VERIF_WATCHDOG", 90));
    let us_index: HashMap<Term, usize> = table.us.iter().cloned().enumerate().map(|(i, t)| (t, i)).collect();
    let pool_ui: Arc<Vec<usize>> = Arc::new(uni.terms.iter().map(|t| us_index[t]).collect());
    let next = Arc::new(AtomicUsize::new(0));
    let findings = Arc::new(Mutex::new(Vec::new()));
    let counts = Arc::new(Mutex::new([0usize; 5])); // runs, skipped_redundant, instances_checked, fired_via_equality, panics
    let mut hs = Vec::new();
    for _ in 0..threads {
        let (uni, table, pool_ui, next, findings, counts) = (uni.clone(), table.clone(), pool_ui.clone(), next.clone(), findings.clone(), counts.clone());
        hs.push(std::thread::spawn(move || loop {
            let si = next.fetch_add(1, Ordering::SeqCst);
            if si >= table.states.len() { break; }
            let spec = table.states[si].clone();
            // documented scope: no redundant slot anywhere
            let redundant = (0..uni.terms.len()).any(|ti| spec.lab[pool_ui[ti]] != 0 && spec.slots[ti].len() < uni.terms[ti].fv().len());
            if redundant { counts.lock().unwrap()[1] += 1; continue; }
            // variants 4..: like 3 (unions first, instances planted afterwards) with a different number of
            // fresh slots drawn beforehand: the internal slot numbers, and with them every hash-ordered
            // iteration inside the library, differ from run to run
            for variant in 0..10 {
                tick(&format!("{} state {:?} variant {}", uni.name, spec.key, variant));
                let (uni2, spec2, pool_ui2) = (uni.clone(), spec.clone(), pool_ui.clone());
                let kind = NAMINGS[(si + variant) % NAMINGS.len()];
                let r = std::thread::spawn(move || {
                    let nm = Naming::new(kind, uni2.n);
                    let ex = |ti: usize| to_recexpr::<T>(&uni2.terms[ti - 1], &nm).unwrap();
                    guard(|| {
                        let mut eg: EGraph<T> = EGraph::default();
                        let mut base = uni2.base.clone();
                        if variant % 2 == 1 { base.reverse(); }
                        let mut key = spec2.key.clone();
                        if variant == 2 || variant == 3 || variant % 2 == 0 && variant > 3 { key.reverse(); }
                        let unions_first = variant >= 3;
                        for _ in 0..(if variant > 3 { [1, 2, 3, 5, 8, 13][variant - 4] } else { 0 }) { let _ = Slot::fresh(); }
                        if !unions_first { for b in &base { eg.add_expr(ex(*b)); } }
                        for e in &key {
                            let (a, b) = uni2.eqs[*e - 1];
                            let (ia, ib) = (eg.add_expr(ex(a)), eg.add_expr(ex(b)));
                            eg.union(&ia, &ib);
                        }
                        if unions_first { for b in &base { eg.add_expr(ex(*b)); } }
                        // pre-state: which left sides are represented (implementation's view)
                        let pre: Vec<bool> = uni2.instances.iter().map(|i| lookup_rec_expr(&ex(i.l), &eg).is_some()).collect();
                        let rw: Rewrite<T> = Rewrite::new(&uni2.rule.name, &pat_text(&uni2.rule.l, &nm), &pat_text(&uni2.rule.r, &nm));
                        let changed = apply_rewrites(&mut eg, &[rw]);
                        let post: Vec<(bool, bool, bool)> = uni2.instances.iter().map(|i| {
                            let l = lookup_rec_expr(&ex(i.l), &eg);
                            let r = lookup_rec_expr(&ex(i.r), &eg);
                            let eq = match (&l, &r) { (Some(l), Some(r)) => eg.eq(l, r), _ => false };
                            (l.is_some(), r.is_some(), eq)
                        }).collect();
                        (pre, post, changed)
                    }).map(|x| (x, pool_ui2))
                }).join().unwrap();
                let mut c = counts.lock().unwrap();
                c[0] += 1;
                match r {
                    Err(p) => {
                        c[4] += 1;
                        findings.lock().unwrap().push(json!({"kind":"finding","prop":"C04","what":"panic while building the pre-state or applying the rule","site":p.site,
                            "universe":uni.name,"key":spec.key,"naming":kind,"detail":{"msg":p.msg}}));
                    }
                    Ok(((pre, post, _changed), _)) => {
                        for (j, inst) in uni.instances.iter().enumerate() {
                            let spec_rep = spec.lab[pool_ui[inst.l - 1]] != 0;
                            if !spec_rep { continue; }
                            c[2] += 1;
                            if !uni.base.contains(&inst.l) { c[3] += 1; }
                            if !pre[j] {
                                findings.lock().unwrap().push(json!({"kind":"finding","prop":"C04","what":"left side is represented (specification) but cannot be looked up before rewriting","site":"",
                                    "universe":uni.name,"key":spec.key,"naming":kind,"detail":{"instance":uni.terms[inst.l-1].show()}}));
                                continue;
                            }
                            let (l, r, eq) = post[j];
                            if !(l && r && eq) {
                                findings.lock().unwrap().push(json!({"kind":"finding","prop":"C04","what":"represented instance of the left side did not fire","site":"",
                                    "universe":uni.name,"key":spec.key,"naming":kind,"variant":variant,
                                    "detail":{"rule":uni.rule.name,"lhs_instance":uni.terms[inst.l-1].show(),"rhs_instance":uni.terms[inst.r-1].show(),
                                              "lhs_represented_after":l,"rhs_represented_after":r,"equal":eq,
                                              "unions":spec.key.iter().map(|e| format!("{} = {}", uni.terms[uni.eqs[*e-1].0-1].show(), uni.terms[uni.eqs[*e-1].1-1].show())).collect::<Vec<_>>()}}));
                            }
                        }
                    }
                }
            }
        }));
    }
    for h in hs { h.join().unwrap(); }
    let f = findings.lock().unwrap();
    for x in f.iter().take(300) { println!("{x}"); }
    let c = counts.lock().unwrap();
    println!("{}", json!({"kind":"summary","universe":uni.name,"states":table.states.len(),"runs":c[0],"states_skipped_redundant":c[1],
        "instances_checked":c[2],"instances_present_only_up_to_equality":c[3],"panics":c[4],"findings":f.len()}));
}
