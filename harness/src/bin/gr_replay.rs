//! C10: the permutation-group structure (through hook H1) and class symmetries (through the
//! e-graph) against Group.tla.
//!   gr_replay table  <table.json> <threads>      exhaustive transition table (deg <= 4)
//!   gr_replay record <out.ndjson> <cases>        random cases on 5 and 6 points for TraceGroup.tla
//! table.json = {"deg":n, "perms":[[..]..], "trans":[{"from":[idx..],"gens":[idx..],"to":[idx..],"grew":b,"orbits":[[..]..]}..]}

use rand::prelude::*;
use serde::Deserialize;
use serde_json::json;
use slotted_egraphs::verif_group::VerifGroup;
use slotted_egraphs::*;
use std::collections::{BTreeSet, HashMap};
use std::sync::atomic::{AtomicUsize, Ordering};
use std::sync::{Arc, Mutex};
use verif_harness::langs::T;
use verif_harness::term::*;
use verif_harness::util::*;

#[derive(Deserialize)]
struct Trans {
    from: Vec<usize>,
    gens: Vec<usize>,
    to: Vec<usize>,
    grew: bool,
    orbits: Vec<Vec<u32>>,
}
#[derive(Deserialize)]
struct Table {
    deg: usize,
    perms: Vec<Vec<u32>>,
    trans: Vec<Trans>,
}

fn perm_map(p: &[u32], nm: &Naming) -> SlotMap {
    p.iter().enumerate().map(|(i, v)| (nm.slot(i as u32 + 1), nm.slot(*v))).collect()
}
fn omega(deg: usize, nm: &Naming) -> SmallHashSet<Slot> {
    (1..=deg as u32).map(|k| nm.slot(k)).collect()
}
fn leaf(p: &[u32]) -> Term {
    let op = match p.len() { 1 => "v", 2 => "f", 3 => "f3", 4 => "f4", 5 => "f5", 6 => "f6", _ => panic!() };
    Term::leaf(op, p)
}

/// checks one group object against the expected element set; returns problems
fn check_group(g: &VerifGroup, expect: &BTreeSet<usize>, orbits: Option<&Vec<Vec<u32>>>, perms: &[Vec<u32>], nm: &Naming, deg: usize) -> Vec<String> {
    let mut errs = Vec::new();
    for (i, p) in perms.iter().enumerate() {
        if g.contains(&perm_map(p, nm)) != expect.contains(&i) {
            errs.push(format!("contains({p:?}) = {} but generated subgroup says {}", !expect.contains(&i), expect.contains(&i)));
            break;
        }
    }
    if g.count() != expect.len() {
        errs.push(format!("count() = {} but the generated subgroup has {} elements", g.count(), expect.len()));
    }
    let all = g.all_perms();
    let idx: HashMap<SlotMap, usize> = perms.iter().enumerate().map(|(i, p)| (perm_map(p, nm), i)).collect();
    let got: BTreeSet<usize> = all.iter().filter_map(|m| idx.get(m).copied()).collect();
    if all.len() != got.len() {
        errs.push(format!("all_perms() has duplicates or non-permutations: {} entries, {} distinct", all.len(), got.len()));
    }
    if &got != expect {
        errs.push("all_perms() is not the generated subgroup".to_string());
    }
    if g.is_trivial() != (expect.len() == 1) {
        errs.push("is_trivial() wrong".to_string());
    }
    if let Some(orbits) = orbits {
        for x in 1..=deg as u32 {
            let o: BTreeSet<u32> = g.orbit(nm.slot(x)).iter().filter_map(|s| nm.name(*s)).collect();
            let want: BTreeSet<u32> = orbits[x as usize - 1].iter().copied().collect();
            if o != want {
                errs.push(format!("orbit({x}) = {o:?}, expected {want:?}"));
            }
        }
    }
    for gen in g.generators() {
        if !idx.get(&gen).map(|i| expect.contains(i)).unwrap_or(false) {
            errs.push("generators() contains a permutation outside the group".to_string());
        }
    }
    errs
}

/// through the e-graph: assert the generators as unions of a leaf with permuted copies
fn egraph_members(gens: &[Vec<u32>], perms: &[Vec<u32>], nm: &Naming, deg: usize) -> (BTreeSet<usize>, usize) {
    let mut eg: EGraph<T> = EGraph::default();
    let idp: Vec<u32> = (1..=deg as u32).collect();
    let base = eg.add_expr(to_recexpr::<T>(&leaf(&idp), nm).unwrap());
    for g in gens {
        let c = eg.add_expr(to_recexpr::<T>(&leaf(g), nm).unwrap());
        eg.union(&base, &c);
    }
    let mut out = BTreeSet::new();
    for (i, p) in perms.iter().enumerate() {
        let c = lookup_rec_expr(&to_recexpr::<T>(&leaf(p), nm).unwrap(), &eg).expect("permuted copy must be represented");
        if eg.eq(&base, &c) {
            out.insert(i);
        }
    }
    (out, eg.progress().sum_of_symmetries)
}

/// the same, then make the slot at position `red` redundant (f(.., r, ..) = f(.., fresh, ..)) and ask again - half of the
/// probes through the handles obtained BEFORE that union (old handles), half through new lookups.
/// Returns (members before, symmetries before, members after, symmetries after, class slots after)
fn egraph_members_red(gens: &[Vec<u32>], perms: &[Vec<u32>], nm: &Naming, deg: usize, red: usize) -> (Vec<bool>, usize, Vec<bool>, usize, usize) {
    let mut eg: EGraph<T> = EGraph::default();
    let idp: Vec<u32> = (1..=deg as u32).collect();
    let base = eg.add_expr(to_recexpr::<T>(&leaf(&idp), nm).unwrap());
    for g in gens {
        let c = eg.add_expr(to_recexpr::<T>(&leaf(g), nm).unwrap());
        eg.union(&base, &c);
    }
    let old: Vec<AppliedId> = perms.iter().map(|p| lookup_rec_expr(&to_recexpr::<T>(&leaf(p), nm).unwrap(), &eg).expect("permuted copy must be represented")).collect();
    let in1: Vec<bool> = old.iter().map(|c| eg.eq(&base, c)).collect();
    let syms1 = eg.progress().sum_of_symmetries;
    // position `red` gets a name no other argument uses
    let nm2 = nm;        // the caller's naming has one spare name (deg + 1)
    let mut other = idp.clone();
    other[red - 1] = deg as u32 + 1;
    let o = eg.add_expr(to_recexpr::<T>(&leaf(&other), nm2).unwrap());
    eg.union(&base, &o);
    let in2: Vec<bool> = perms.iter().enumerate().map(|(i, p)| {
        if i % 2 == 0 { eg.eq(&base, &old[i]) }
        else { let c = lookup_rec_expr(&to_recexpr::<T>(&leaf(p), nm2).unwrap(), &eg).expect("permuted copy must be represented"); eg.eq(&eg.find_applied_id(&base), &c) }
    }).collect();
    let slots2 = eg.find_applied_id(&base).slots().len();
    (in1, syms1, in2, eg.progress().sum_of_symmetries, slots2)
}

fn main() {
    let args: Vec<String> = std::env::args().collect();
    install_hook();
    start_watchdog(env_u64("VERIF_WATCHDOG", 90));
    if args[1] == "table" {
        let t: Arc<Table> = Arc::new(serde_json::from_str(&std::fs::read_to_string(&args[2]).unwrap()).unwrap());
        let threads: usize = args[3].parse().unwrap();
        // a generating path for every subgroup (BFS over the transition table from the trivial group)
        let mut path_gens: HashMap<Vec<usize>, Vec<usize>> = HashMap::new();
        let trivial: Vec<usize> = t.trans.iter().map(|x| &x.from).min_by_key(|f| f.len()).unwrap().clone();
        path_gens.insert(trivial.clone(), vec![]);
        loop {
            let mut changed = false;
            for tr in &t.trans {
                if path_gens.contains_key(&tr.from) && !path_gens.contains_key(&tr.to) {
                    let mut g = path_gens[&tr.from].clone();
                    g.extend(tr.gens.iter().copied());
                    path_gens.insert(tr.to.clone(), g);
                    changed = true;
                }
            }
            if !changed { break; }
        }
        let path_gens = Arc::new(path_gens);
        let next = Arc::new(AtomicUsize::new(0));
        let findings = Arc::new(Mutex::new(Vec::new()));
        let counts = Arc::new(Mutex::new((0usize, 0usize)));
        let mut hs = Vec::new();
        for _ in 0..threads {
            let (t, next, findings, path_gens, counts) = (t.clone(), next.clone(), findings.clone(), path_gens.clone(), counts.clone());
            hs.push(std::thread::spawn(move || {
                let namings: Vec<Naming> = NAMINGS.iter().map(|k| Naming::new(k, t.deg as u32)).collect();
                let (mut n_group, mut n_eg) = (0, 0);
                loop {
                    let i = next.fetch_add(1, Ordering::SeqCst);
                    if i >= t.trans.len() { break; }
                    let tr = &t.trans[i];
                    if i % 64 == 0 { tick(&format!("group transition {i}")); }
                    let nm = &namings[i % namings.len()];
                    let expect: BTreeSet<usize> = tr.to.iter().map(|x| x - 1).collect();
                    let show = |ix: &Vec<usize>| -> Vec<Vec<u32>> { ix.iter().map(|x| t.perms[x - 1].clone()).collect() };
                    let mut bad = |what: &str, site: &str, detail: serde_json::Value| {
                        let mut f = findings.lock().unwrap();
                        if f.len() < 200 {
                            f.push(json!({"kind":"finding","prop":"C10","what":what,"site":site,"naming":nm.kind,
                                "detail":{"from_generators":show(&path_gens[&tr.from]),"added":show(&tr.gens),"expected_order":tr.to.len(),"problem":detail}}));
                        }
                    };
                    // (i) directly on the group structure, two representations of the from-group
                    for repr in 0..2 {
                        let from_gens: Vec<SlotMap> = if repr == 0 {
                            path_gens[&tr.from].iter().map(|x| perm_map(&t.perms[x - 1], nm)).collect()
                        } else {
                            tr.from.iter().map(|x| perm_map(&t.perms[x - 1], nm)).collect()
                        };
                        let add: Vec<SlotMap> = tr.gens.iter().map(|x| perm_map(&t.perms[x - 1], nm)).collect();
                        let r = guard(|| {
                            let mut g = VerifGroup::new(&omega(t.deg, nm), from_gens.clone());
                            let from_expect: BTreeSet<usize> = tr.from.iter().map(|x| x - 1).collect();
                            let mut errs = check_group(&g, &from_expect, None, &t.perms, nm, t.deg);
                            let grew = g.add_set(add.clone());
                            if grew != tr.grew {
                                errs.push(format!("add_set returned {grew}, the group {} grow", if tr.grew { "does" } else { "does not" }));
                            }
                            errs.extend(check_group(&g, &expect, Some(&tr.orbits), &t.perms, nm, t.deg));
                            errs
                        });
                        n_group += 1;
                        match r {
                            Ok(e) if e.is_empty() => {}
                            Ok(e) => bad("group structure disagrees with the generated subgroup", "", json!(e)),
                            Err(p) => bad("panic in the group structure", &p.site, json!(p.msg)),
                        }
                    }
                    // (ii) through the e-graph
                    let mut gens: Vec<Vec<u32>> = path_gens[&tr.from].iter().map(|x| t.perms[x - 1].clone()).collect();
                    gens.extend(tr.gens.iter().map(|x| t.perms[x - 1].clone()));
                    if i % 2 == 1 { gens.reverse(); }
                    let r = guard(|| egraph_members(&gens, &t.perms, nm, t.deg));
                    n_eg += 1;
                    match r {
                        Ok((got, syms)) => {
                            if got != expect {
                                let extra: Vec<_> = got.difference(&expect).map(|x| t.perms[*x].clone()).collect();
                                let missing: Vec<_> = expect.difference(&got).map(|x| t.perms[*x].clone()).collect();
                                bad("permuted copies equal in the e-graph are not exactly the generated subgroup", "", json!({"extra":extra,"missing":missing}));
                            }
                            if syms != expect.len() {
                                bad("sum_of_symmetries differs from the order of the generated subgroup", "", json!({"impl":syms}));
                            }
                        }
                        Err(p) => bad("panic while asserting symmetries through unions", &p.site, json!(p.msg)),
                    }
                }
                let mut c = counts.lock().unwrap();
                c.0 += n_group;
                c.1 += n_eg;
            }));
        }
        for h in hs { h.join().unwrap(); }
        let f = findings.lock().unwrap();
        for x in f.iter() { println!("{x}"); }
        let c = counts.lock().unwrap();
        println!("{}", json!({"kind":"summary","deg":t.deg,"transitions":t.trans.len(),"subgroups":path_gens.len(),"group_cases":c.0,"egraph_cases":c.1,"findings":f.len()}));
    } else {
        // record random cases on 5 and 6 points
        use std::io::Write;
        let mut out = std::io::BufWriter::new(std::fs::File::create(&args[2]).unwrap());
        let cases: usize = args[3].parse().unwrap();
        let mut rng = StdRng::seed_from_u64(env_u64("VERIF_SEED", 0) ^ 0xC10);
        let mut panics = Vec::new();
        for c in 0..cases {
            tick(&format!("group case {c}"));
            let deg = if c % 2 == 0 { 5 } else { 6 };
            let nm = Naming::new(NAMINGS[c % NAMINGS.len()], deg as u32 + 1);      // one spare name for the redundancy phase
            let rp = |rng: &mut StdRng| -> Vec<u32> {
                let mut p: Vec<u32> = (1..=deg as u32).collect();
                // mostly structured permutations (few moved points), sometimes arbitrary
                if rng.gen_bool(0.3) { p.shuffle(rng); } else if rng.gen_bool(0.4) {
                    // (a b)(y z) with y, z the two LAST points: several generators of this kind share (y z) - generators that
                    // break together when one of y, z becomes redundant, with different residues
                    let mut pts: Vec<usize> = (0..deg - 2).collect();
                    pts.shuffle(rng);
                    p.swap(pts[0], pts[1]);
                    p.swap(deg - 2, deg - 1);
                } else {
                    let k = rng.gen_range(2..=3usize);
                    let mut pts: Vec<usize> = (0..deg).collect();
                    pts.shuffle(rng);
                    let first = p[pts[0]];
                    for j in 0..k - 1 { p[pts[j]] = p[pts[j + 1]]; }
                    p[pts[k - 1]] = first;
                }
                p
            };
            let gens: Vec<Vec<u32>> = (0..rng.gen_range(1..=3)).map(|_| rp(&mut rng)).collect();
            let more: Vec<Vec<u32>> = (0..rng.gen_range(0..=2)).map(|_| rp(&mut rng)).collect();
            let probes: Vec<Vec<u32>> = (0..40).map(|_| { let mut p: Vec<u32> = (1..=deg as u32).collect(); p.shuffle(&mut rng); p }).collect();
            let viaeg = deg == 5 || c % 4 == 1;
            let red = if rng.gen_bool(0.6) { deg } else { rng.gen_range(1..=deg) };      // the position whose slot is made redundant afterwards
            let r = guard(|| {
                let back = |m: &SlotMap| -> Vec<u32> { (1..=deg as u32).map(|i| nm.name(m[nm.slot(i)]).unwrap()).collect() };
                let mut g = VerifGroup::new(&omega(deg, &nm), gens.iter().map(|p| perm_map(p, &nm)).collect());
                let count1 = g.count();
                let all1: Vec<Vec<u32>> = g.all_perms().iter().map(|m| back(m)).collect();
                let in1: Vec<bool> = probes.iter().map(|p| g.contains(&perm_map(p, &nm))).collect();
                let orbits1: Vec<Vec<u32>> = (1..=deg as u32).map(|x| { let mut o: Vec<u32> = g.orbit(nm.slot(x)).iter().map(|s| nm.name(*s).unwrap()).collect(); o.sort(); o }).collect();
                let grew = g.add_set(more.iter().map(|p| perm_map(p, &nm)).collect());
                let count2 = g.count();
                let all2: Vec<Vec<u32>> = g.all_perms().iter().map(|m| back(m)).collect();
                let in2: Vec<bool> = probes.iter().map(|p| g.contains(&perm_map(p, &nm))).collect();
                let (eg_in, eg_syms, eg_in_red, eg_syms_red, eg_slots_red) = if viaeg {
                    let mut all_gens = gens.clone();
                    all_gens.extend(more.iter().cloned());
                    let (m, s) = egraph_members(&all_gens, &probes, &nm, deg);
                    let (m1, s1, m2, s2, sl2) = egraph_members_red(&all_gens, &probes, &nm, deg, red);
                    let m0 = (0..probes.len()).map(|i| m.contains(&i)).collect::<Vec<bool>>();
                    if m0 != m1 || s != s1 { panic!("the e-graph answers differently when asked twice (symmetry unions)"); }
                    (m0, s, m2, s2, sl2)
                } else { (vec![false; probes.len()], 0, vec![false; probes.len()], 0, 0) };
                let pr: Vec<serde_json::Value> = (0..probes.len()).map(|i| json!([probes[i], in1[i], in2[i], eg_in[i], eg_in_red[i]])).collect();
                json!({"deg":deg,"gens":gens,"more":more,"count1":count1,"all1":all1,"orbits1":orbits1,"grew":grew,"count2":count2,"all2":all2,
                       "probes":pr,"viaegraph":viaeg,"eg_syms":eg_syms,"red":red,"eg_syms_red":eg_syms_red,"eg_slots_red":eg_slots_red,"naming":nm.kind})
            });
            match r {
                Ok(v) => writeln!(out, "{v}").unwrap(),
                Err(p) => panics.push(json!({"kind":"finding","prop":"C10","what":"panic in the group structure / symmetry unions","site":p.site,"detail":{"msg":p.msg,"gens":gens,"more":more}})),
            }
        }
        for p in &panics { println!("{p}"); }
        println!("{}", json!({"kind":"summary","cases":cases,"panics":panics.len()}));
    }
}
