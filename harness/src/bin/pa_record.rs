//! C18 direction B: random larger well-formed patterns are printed by the implementation, then
//! truncated / spliced / mutated at character level; every text is parsed by the real parser
//! under catch_unwind and the result logged for TraceParse.tla.
//! usage: pa_record <out.ndjson> <cases>

use rand::prelude::*;
use serde_json::{json, Value};
use slotted_egraphs::*;
use std::io::Write;
use verif_harness::langs::{P, Q};
use verif_harness::util::*;

fn slot_name(s: Slot) -> String { s.to_string()[1..].to_string() }

fn ast_of(p: &Pattern<P>) -> Value {
    match p {
        Pattern::PVar(v) => json!({"k":"pvar","op":v,"sl":[],"ch":[]}),
        Pattern::Subst(b, x, t) => json!({"k":"subst","op":"","sl":[],"ch":[{"bd":[],"t":ast_of(b)},{"bd":[],"t":ast_of(x)},{"bd":[],"t":ast_of(t)}]}),
        Pattern::ENode(n, children) => {
            let syn = n.to_syntax();
            let mut op = String::new();
            let mut pending: Vec<String> = Vec::new();
            let mut ch: Vec<Value> = Vec::new();
            let mut ci = 0;
            for (i, e) in syn.iter().enumerate() {
                match e {
                    SyntaxElem::String(s) => { if i == 0 { op = s.clone(); } }
                    SyntaxElem::Slot(s) => pending.push(slot_name(*s)),
                    SyntaxElem::AppliedId(_) => {
                        let t = if ci < children.len() { ast_of(&children[ci]) } else { json!({"k":"MISSING-CHILD","op":"","sl":[],"ch":[]}) };
                        ci += 1;
                        ch.push(json!({"bd": std::mem::take(&mut pending), "t": t}));
                    }
                }
            }
            for c in children.iter().skip(ci) { ch.push(json!({"bd":["EXTRA-CHILD"],"t":ast_of(c)})); }
            let sl = if ch.is_empty() { pending } else { if !pending.is_empty() { ch.push(json!({"bd": pending, "t": {"k":"TRAILING-SLOTS","op":"","sl":[],"ch":[]}})); } vec![] };
            json!({"k":"node","op":op,"sl":sl,"ch":ch})
        }
    }
}

fn gen(rng: &mut StdRng, depth: usize, pat: bool) -> String {
    // names that LOOK like numbers but are not the canonical spelling of one are ordinary names, distinct from the number
    let slots = ["$1", "$2", "$x", "$yy", "$f3", "$\u{e9}", "$a\u{e9}b", "$007", "$+7", "$7", "$00", "$0", "$f03"];
    let sl = |rng: &mut StdRng| slots[rng.gen_range(0..slots.len())].to_string();
    let leaf = depth == 0 || rng.gen_bool(0.25);
    let base = if leaf {
        match rng.gen_range(0..5) {
            0 => "c".to_string(),
            1 => format!("{}", rng.gen_range(1..10)),
            2 => format!("(v {})", sl(rng)),
            3 if pat => format!("?{}", ["a", "b", "c1", "\u{e9}", "\u{e9}x"][rng.gen_range(0..5)]),
            _ => format!("(f {} {})", sl(rng), sl(rng)),
        }
    } else {
        match rng.gen_range(0..4) {
            0 => format!("(g {})", gen(rng, depth - 1, pat)),
            1 => format!("(h {} {})", gen(rng, depth - 1, pat), gen(rng, depth - 1, pat)),
            2 => format!("(lam {} {})", sl(rng), gen(rng, depth - 1, pat)),
            _ => format!("(let {} {} {})", sl(rng), gen(rng, depth - 1, pat), gen(rng, depth - 1, pat)),
        }
    };
    if pat && depth > 0 && rng.gen_bool(0.2) {
        // one substitution suffix, or a CHAIN b[x := t][y := u].. (applied left to right)
        let k = match rng.gen_range(0..10) { 0..=5 => 1, 6..=8 => 2, _ => 3 };
        let mut s = base;
        for _ in 0..k { s = format!("{}[{} := {}]", s, gen(rng, depth - 1, pat), gen(rng, depth - 1, pat)); }
        s
    } else { base }
}

fn mutate(rng: &mut StdRng, s: &str, other: &str) -> String {
    let cs: Vec<char> = s.chars().collect();
    let os: Vec<char> = other.chars().collect();
    let alphabet: Vec<char> = "()[]:=?$ cfghlamtv12x\u{e9}".chars().collect();
    if cs.is_empty() { return String::new(); }
    // slot names whose number does not fit the slot encoding (numeric: 4n, fresh form: 4n+1 in a u32)
    const BIG: [&str; 8] = ["$1073741823", "$1073741824", "$4294967295", "$4294967296", "$f1073741700", "$f1073741824", "$f4294967295", "$99999999999999999999"];
    match rng.gen_range(0..7) {
        6 => {
            // replace one `$name` by a huge one
            let pos: Vec<usize> = cs.iter().enumerate().filter(|(_, c)| **c == '$').map(|(i, _)| i).collect();
            if pos.is_empty() { return s.to_string(); }
            let i = pos[rng.gen_range(0..pos.len())];
            let mut j = i + 1;
            while j < cs.len() && !" ()[]".contains(cs[j]) { j += 1; }
            let big = BIG[rng.gen_range(0..BIG.len())];
            cs[..i].iter().collect::<String>() + big + &cs[j..].iter().collect::<String>()
        }
        0 => cs[..rng.gen_range(0..cs.len())].iter().collect(),                       // truncate
        1 => cs[rng.gen_range(0..cs.len())..].iter().collect(),                       // drop a prefix
        2 => { let i = rng.gen_range(0..cs.len()); let j = rng.gen_range(0..=os.len()); cs[..i].iter().chain(os[j..].iter()).collect() } // splice
        3 => { let mut v = cs.clone(); let i = rng.gen_range(0..v.len()); v[i] = alphabet[rng.gen_range(0..alphabet.len())]; v.into_iter().collect() } // replace
        4 => { let mut v = cs.clone(); let i = rng.gen_range(0..v.len()); v.remove(i); v.into_iter().collect() }                                   // delete
        _ => { let mut v = cs.clone(); let i = rng.gen_range(0..=v.len()); v.insert(i, alphabet[rng.gen_range(0..alphabet.len())]); v.into_iter().collect() } // insert
    }
}

fn main() {
    let args: Vec<String> = std::env::args().collect();
    let mut out = std::io::BufWriter::new(std::fs::File::create(&args[1]).unwrap());
    let cases: usize = args[2].parse().unwrap();
    let mut rng = StdRng::seed_from_u64(env_u64("VERIF_SEED", 0) ^ 0xC18);
    install_hook();
    let mut n = 0;
    let mut panics = 0;
    for _ in 0..cases {
        let pat = rng.gen_bool(0.7);
        let a = gen(&mut rng, 3, pat);
        let b = gen(&mut rng, 2, pat);
        // the generated text is printed by the implementation first (so that valid texts are
        // exactly what Display produces)
        let printed = match guard(|| Pattern::<P>::parse(&a).map(|p| p.to_string())) { Ok(Ok(s)) => s, _ => a.clone() };
        let mut texts = vec![printed.clone()];
        for _ in 0..4 { texts.push(mutate(&mut rng, &printed, &b)); }
        let m2 = mutate(&mut rng, &texts[1].clone(), &b);
        texts.push(m2);
        for t in texts {
            let kind = if rng.gen_bool(0.75) { "pattern" } else { "term" };
            let res = if kind == "pattern" {
                guard(|| Pattern::<P>::parse(&t).ok().map(|p| (ast_of(&p), Pattern::<P>::parse(&p.to_string()).map(|q| q == p).unwrap_or(false))))
            } else {
                guard(|| RecExpr::<P>::parse(&t).ok().map(|r| (ast_of(&re_to_pattern(&r)), RecExpr::<P>::parse(&r.to_string()).map(|q| q == r).unwrap_or(false))))
            };
            let chars: Vec<String> = t.chars().map(|c| c.to_string()).collect();
            let ev = match res {
                Ok(None) => json!({"kind": kind, "chars": chars, "ok": false, "panic": false, "ast": {"k":"none","op":"","sl":[],"ch":[]}, "roundtrip": true}),
                Ok(Some((ast, rt))) => json!({"kind": kind, "chars": chars, "ok": true, "panic": false, "ast": ast, "roundtrip": rt}),
                Err(p) => { panics += 1; json!({"kind": kind, "chars": chars, "ok": false, "panic": true, "ast": {"k":"none","op":"","sl":[],"ch":[]}, "roundtrip": true, "msg": p.msg, "site": p.site}) }
            };
            writeln!(out, "{ev}").unwrap();
            n += 1;
        }
    }
    // terms of language Q (named operators WITH payload fields) built through the API: what Display prints must parse back
    // to the same value, as a term and as a pattern
    fn genq(rng: &mut StdRng, depth: usize) -> RecExpr<Q> {
        // also payload texts that READ as numbers but are not canonical numerals: the payload is the text as written (C18n)
        let syms = ["foo", "a", "x1", "lam", "c", "7", "tag", "007", "+1", "010", "00"];
        let leaf = |n: Q| RecExpr { node: n, children: vec![] };
        if depth == 0 || rng.gen_bool(0.25) {
            return match rng.gen_range(0..6) {
                0 => leaf(Q::C()),
                1 => leaf(Q::Const(Symbol::from(syms[rng.gen_range(0..3)]))),
                2 => leaf(Q::Lit(rng.gen_range(0..20))),
                3 => leaf(Q::V(Slot::named(["1", "x"][rng.gen_range(0..2)]))),
                4 => leaf(Q::Num(rng.gen_range(0..20))),
                // also symbols spelled like an operator that takes arguments (D26): a bare `lam` is a symbol, not a `lam` node
                _ => leaf(Q::Sym(Symbol::from(["foo", "a", "x1", "lam", "tag", "lit", "v"][rng.gen_range(0..7)]))),
            };
        }
        match rng.gen_range(0..4) {
            0 => RecExpr { node: Q::Tag(Symbol::from(syms[rng.gen_range(0..syms.len())]), AppliedId::null()), children: vec![genq(rng, depth - 1)] },
            1 => RecExpr { node: Q::Two(rng.gen_range(0..20), Symbol::from(syms[rng.gen_range(0..syms.len())]), AppliedId::null(), AppliedId::null()),
                           children: vec![genq(rng, depth - 1), genq(rng, depth - 1)] },
            2 => RecExpr { node: Q::Lam(Bind { slot: Slot::named("x"), elem: AppliedId::null() }), children: vec![genq(rng, depth - 1)] },
            _ => RecExpr { node: Q::Tag(Symbol::from("foo"), AppliedId::null()), children: vec![genq(rng, depth - 1)] },
        }
    }
    for _ in 0..cases / 2 {
        let t = genq(&mut rng, 3);
        let text = match guard(|| t.to_string()) { Ok(s) => s, Err(_) => continue };
        let res = guard(|| {
            let as_term = RecExpr::<Q>::parse(&text).map(|r| r == t && r.to_string() == text).unwrap_or(false);
            let as_pat = Pattern::<Q>::parse(&text).map(|p| p.to_string() == text).unwrap_or(false);
            (RecExpr::<Q>::parse(&text).is_ok(), as_term && as_pat)
        });
        let chars: Vec<String> = text.chars().map(|c| c.to_string()).collect();
        let none = json!({"k":"none","op":"","sl":[],"ch":[]});
        let ev = match res {
            Ok((ok, rt)) => json!({"kind": "payload-term", "chars": chars, "ok": ok, "panic": false, "ast": none, "roundtrip": rt}),
            Err(p) => { panics += 1; json!({"kind": "payload-term", "chars": chars, "ok": false, "panic": true, "ast": none, "roundtrip": false, "msg": p.msg, "site": p.site}) }
        };
        writeln!(out, "{ev}").unwrap();
        n += 1;
    }
    println!("{}", json!({"kind":"summary","events":n,"panics":panics}));
}
