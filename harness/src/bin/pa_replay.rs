//! C18: parser/printer against Parse.tla.
//! usage: pa_replay <table.json> <threads>
//! table.json = {"mode":"tok"|"chr","alphabet":[..],"maxlen":n,"accepted":[{"s":[..],"ast":AST,"multi":bool}..]}
//! Enumerates ALL strings up to maxlen over the alphabet itself; a string in the emitted
//! language must parse to exactly the emitted AST, every other string must return Err;
//! nothing may panic; print -> parse is the identity on every accepted value.

use serde::Deserialize;
use serde_json::{json, Value};
use slotted_egraphs::*;
use std::collections::HashMap;
use std::sync::{Arc, Mutex};
use verif_harness::langs::P;
use verif_harness::util::*;

#[derive(Deserialize)]
struct Acc { s: Value, ast: Value, multi: bool }
#[derive(Deserialize)]
struct Table { mode: String, alphabet: Vec<Value>, maxlen: usize, accepted: Vec<Acc> }

fn tok_text(t: &Value) -> String {
    let k = t[0].as_str().unwrap();
    let x = t[1].as_str().unwrap();
    match k { "lp" => "(".into(), "rp" => ")".into(), "lb" => "[".into(), "rb" => "]".into(), "ce" => ":=".into(),
              "id" => x.into(), "pv" => format!("?{x}"), "sl" => format!("${x}"), _ => panic!() }
}

/// The models are ASCII (SANY); their identifier character `U` stands for a multi-byte UTF-8
/// character in the text given to the real parser, and is mapped back in the parsed values.
const WIDE: &str = "\u{e9}";
fn widen(s: &str) -> String { s.replace('U', WIDE) }
fn narrow(s: &str) -> String { s.replace(WIDE, "U") }
fn slot_name(s: Slot) -> String { narrow(&s.to_string()[1..]) }

/// implementation Pattern -> the AST encoding of Parse.tla
fn ast_of(p: &Pattern<P>) -> Value {
    match p {
        Pattern::PVar(v) => json!({"k":"pvar","op":narrow(v),"sl":[],"ch":[]}),
        Pattern::Subst(b, x, t) => json!({"k":"subst","op":"","sl":[],"ch":[{"bd":[],"t":ast_of(b)},{"bd":[],"t":ast_of(x)},{"bd":[],"t":ast_of(t)}]}),
        Pattern::ENode(n, children) => {
            let syn = n.to_syntax();
            let mut op = String::new();
            let mut pending: Vec<String> = Vec::new();
            let mut ch: Vec<Value> = Vec::new();
            let mut ci = 0;
            for (i, e) in syn.iter().enumerate() {
                match e {
                    SyntaxElem::String(s) => { if i == 0 { op = narrow(s); } }
                    SyntaxElem::Slot(s) => pending.push(slot_name(*s)),
                    SyntaxElem::AppliedId(_) => {
                        let t = if ci < children.len() { ast_of(&children[ci]) } else { json!({"k":"MISSING-CHILD"}) };
                        ci += 1;
                        ch.push(json!({"bd": std::mem::take(&mut pending), "t": t}));
                    }
                }
            }
            let extra: Vec<Value> = children.iter().skip(ci).map(|c| json!({"bd":["EXTRA-CHILD"],"t":ast_of(c)})).collect();
            ch.extend(extra);
            let sl = if ch.is_empty() { pending } else { if !pending.is_empty() { ch.push(json!({"bd": pending, "t": {"k":"TRAILING-SLOTS"}})); } vec![] };
            json!({"k":"node","op":op,"sl":sl,"ch":ch})
        }
    }
}

fn is_term(a: &Value) -> bool {
    a["k"] == "node" && a["ch"].as_array().unwrap().iter().all(|c| is_term(&c["t"]))
}

fn main() {
    let args: Vec<String> = std::env::args().collect();
    let t: Table = serde_json::from_str(&std::fs::read_to_string(&args[1]).unwrap()).unwrap();
    let threads: usize = args[2].parse().unwrap();
    install_hook();
    let texts: Vec<String> = if t.mode == "tok" { t.alphabet.iter().map(tok_text).collect() } else { t.alphabet.iter().map(|c| c.as_str().unwrap().to_string()).collect() };
    let sep = if t.mode == "tok" { " " } else { "" };
    let mut accepted: HashMap<String, (Value, bool)> = HashMap::new();
    for a in &t.accepted {
        let parts: Vec<String> = a.s.as_array().unwrap().iter().map(|x| if t.mode == "tok" { tok_text(x) } else { x.as_str().unwrap().to_string() }).collect();
        accepted.insert(parts.join(sep), (a.ast.clone(), a.multi));
    }
    let accepted = Arc::new(accepted);
    let texts = Arc::new(texts);
    let findings = Arc::new(Mutex::new(Vec::<Value>::new()));
    let counts = Arc::new(Mutex::new([0u64; 6]));
    let n = texts.len();
    let maxlen = t.maxlen;
    // work split by the first symbol
    let mut hs = Vec::new();
    for w in 0..threads {
        let (accepted, texts, findings, counts) = (accepted.clone(), texts.clone(), findings.clone(), counts.clone());
        hs.push(std::thread::spawn(move || {
            let mut c = [0u64; 6];
            let mut local: Vec<Value> = Vec::new();
            let mut idx: Vec<usize> = Vec::new();
            // iterative enumeration of all index sequences (including the empty one on worker 0)
            fn rec(idx: &mut Vec<usize>, n: usize, maxlen: usize, w: usize, threads: usize, f: &mut dyn FnMut(&[usize])) {
                if !(idx.is_empty() && w != 0) && (idx.is_empty() || idx[0] % threads == w) { f(idx); }
                if idx.len() == maxlen { return; }
                for i in 0..n {
                    if idx.is_empty() && i % threads != w { continue; }
                    idx.push(i);
                    rec(idx, n, maxlen, w, threads, f);
                    idx.pop();
                }
            }
            let mut f = |ix: &[usize]| {
                let key: String = ix.iter().map(|i| texts[*i].as_str()).collect::<Vec<_>>().join(sep);
                let s: String = widen(&key);
                c[0] += 1;
                let mut bad = |what: &str, site: &str, detail: Value| {
                    if local.len() < 100 { local.push(json!({"kind":"finding","prop":"C18","what":what,"site":site,"detail":{"text":s,"info":detail}})); }
                };
                let exp = accepted.get(&key);
                // --- Pattern::parse
                match guard(|| Pattern::<P>::parse(&s)) {
                    Err(p) => bad("Pattern::parse panics", &p.site, json!(p.msg)),
                    Ok(Err(_)) => { if exp.is_some() { bad("a well-formed pattern text is rejected", "", json!(null)); } c[1] += 1; }
                    Ok(Ok(pat)) => {
                        c[2] += 1;
                        let got = ast_of(&pat);
                        match exp {
                            None => bad("text outside the grammar is accepted (value not well formed)", "", json!({"parsed_as": got})),
                            Some((ast, multi)) => {
                                if &got != ast { bad("parsed value differs from the specification's AST", "", json!({"got": got, "want": ast})); }
                                // print -> parse round trip
                                match guard(|| { let txt = pat.to_string(); (txt.clone(), Pattern::<P>::parse(&txt)) }) {
                                    Err(p) => bad("printing/parsing a pattern panics", &p.site, json!(p.msg)),
                                    Ok((txt, Ok(p2))) => { if p2 != pat { bad("print then parse gives a different pattern", "", json!({"printed": txt})); } c[3] += 1; }
                                    Ok((txt, Err(e))) => bad("printed pattern does not parse", "", json!({"printed": txt, "err": format!("{e:?}")})),
                                }
                                // multi-pattern built from this pattern
                                let mtxt = format!("?m == {s}");
                                match guard(|| MultiPattern::<P>::parse(&mtxt).map(|m| m.to_string())) {
                                    Err(p) => { if !*multi || true { bad("MultiPattern::parse panics", &p.site, json!({"input": mtxt, "msg": p.msg})); } }
                                    Ok(Ok(printed)) => {
                                        if !*multi { bad("multi-pattern with a nested / non-node right side is accepted", "", json!({"input": mtxt})); }
                                        else {
                                            match guard(|| MultiPattern::<P>::parse(&printed).map(|m| m.to_string())) {
                                                Ok(Ok(p2)) => { if p2 != printed { bad("multi-pattern print/parse not stable", "", json!({"printed": printed, "again": p2})); } c[4] += 1; }
                                                Ok(Err(e)) => bad("printed multi-pattern does not parse", "", json!({"printed": printed, "err": format!("{e:?}")})),
                                                Err(p) => bad("printed multi-pattern makes the parser panic", &p.site, json!({"printed": printed, "msg": p.msg})),
                                            }
                                        }
                                    }
                                    Ok(Err(_)) => { if *multi { bad("well-formed multi-pattern rejected", "", json!({"input": mtxt})); } }
                                }
                            }
                        }
                    }
                }
                // --- RecExpr::parse: terms only
                match guard(|| RecExpr::<P>::parse(&s)) {
                    Err(p) => bad("RecExpr::parse panics", &p.site, json!(p.msg)),
                    Ok(Err(_)) => { if let Some((ast, _)) = exp { if is_term(ast) { bad("a well-formed term text is rejected", "", json!(null)); } } }
                    Ok(Ok(re)) => {
                        c[5] += 1;
                        match exp {
                            Some((ast, _)) if is_term(ast) => {
                                let got = match guard(|| ast_of(&re_to_pattern(&re))) { Ok(g) => g, Err(p) => { bad("accepted term cannot be traversed (ill-formed value)", &p.site, json!(p.msg)); json!(null) } };
                                if &got != ast { bad("parsed term differs from the specification's AST", "", json!({"got": got, "want": ast})); }
                                match guard(|| RecExpr::<P>::parse(&re.to_string())) {
                                    Ok(Ok(r2)) => { if r2 != re { bad("print then parse gives a different term", "", json!({"printed": re.to_string()})); } }
                                    Ok(Err(e)) => bad("printed term does not parse", "", json!({"printed": re.to_string(), "err": format!("{e:?}")})),
                                    Err(p) => bad("printed term makes the parser panic", &p.site, json!(p.msg)),
                                }
                            }
                            // (an ill-formed value may not even be printable: Display indexes the missing child)
                            _ => bad("text that is not a well-formed term is accepted by RecExpr::parse", "",
                                     json!({"parsed_as": guard(|| format!("{re}")).unwrap_or_else(|p| format!("<Display panics: {}>", p.msg))})),
                        }
                    }
                }
                // --- garbage around a multi-pattern never panics
                if c[0] % 7 == 0 {
                    for m in [format!("{s} == ?a"), format!("?a == {s}, {s}"), format!("?a {s}"), format!("{s},,== {s}")] {
                        if let Err(p) = guard(|| MultiPattern::<P>::parse(&m).is_ok()) {
                            bad("MultiPattern::parse panics", &p.site, json!({"input": m, "msg": p.msg}));
                            break;
                        }
                    }
                }
            };
            rec(&mut idx, n, maxlen, w, threads, &mut f);
            findings.lock().unwrap().extend(local);
            let mut g = counts.lock().unwrap();
            for i in 0..6 { g[i] += c[i]; }
        }));
    }
    for h in hs { h.join().unwrap(); }
    let f = findings.lock().unwrap();
    for x in f.iter() { println!("{x}"); }
    let c = counts.lock().unwrap();
    println!("{}", json!({"kind":"summary","mode":t.mode,"strings":c[0],"rejected":c[1],"accepted_by_impl":c[2],"accepted_by_spec":accepted.len(),
        "pattern_roundtrips":c[3],"multipattern_roundtrips":c[4],"terms":c[5],"findings":f.len()}));
}
