use slotted_egraphs::*;
use verif_harness::langs::A;
fn main() {
    // D17: b[x := x+1] where the e-graph knows (x+1)+2 = x
    let ext = std::env::var("EXT").is_ok();
    let mut eg: EGraph<A> = if ext { EGraph::with_subst_method::<ExtractionSubst>(()) } else { EGraph::new(()) };
    let start: RecExpr<A> = RecExpr::parse("(sum $1 (mul (add (var $1) 2) (mul (var $1) (var $1))))").unwrap();
    let s = eg.add_expr(start);
    let a = eg.add_expr(RecExpr::parse("(add (add (var $1) 1) 2)").unwrap());
    let v = eg.add_expr(RecExpr::parse("(var $1)").unwrap());
    eg.union(&a, &v); // true mod 3
    let rw: Rewrite<A> = Rewrite::new("sum-shift", "(sum $1 ?a)", "(sum $1 ?a[(var $1) := (add (var $1) 1)])");
    apply_rewrites(&mut eg, &[rw]);
    let good = lookup_rec_expr(&RecExpr::parse("(sum $1 (mul (var $1) (mul (add (var $1) 1) (add (var $1) 1))))").unwrap(), &eg);
    let bad = lookup_rec_expr(&RecExpr::parse("(sum $1 (mul (add (var $1) 1) (mul (add (var $1) 1) (add (var $1) 1))))").unwrap(), &eg);
    println!("correct instance represented and equal: {:?}", good.map(|g| eg.eq(&g, &s)));
    println!("WRONG instance (x+1)^3 represented and equal: {:?}", bad.map(|g| eg.eq(&g, &s)));
}
