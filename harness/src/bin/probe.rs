use slotted_egraphs::*;
use verif_harness::langs::{A, T};
fn main() {
    // 1. get_syn_expr with an argument that equals the stored binder name
    let mut eg: EGraph<T> = EGraph::default();
    let _x = eg.add_syn_expr(RecExpr::parse("(lam $1 (f $1 $2))").unwrap());
    let y = eg.add_syn_expr(RecExpr::parse("(lam $9 (f $9 $1))").unwrap());
    println!("class of (lam $9 (f $9 $1)) reads back as: {}", eg.get_syn_expr(&y));
    // 2. substitution b[x := t] through SynExprSubst: let $2 = (var $1) in (sum $1 (mul (var $1) (var $2)))
    let mut eg2: EGraph<A> = EGraph::default();
    let start: RecExpr<A> = RecExpr::parse("(let $2 (sum $1 (mul (var $1) (var $2))) (var $1))").unwrap();
    let root = eg2.add_expr(start.clone());
    let rw: Rewrite<A> = Rewrite::new("let-subst", "(let $2 ?a ?c)", "?a[(var $2) := ?c]");
    apply_rewrites(&mut eg2, &[rw]);
    let ex = Extractor::<A, AstSize>::new(&eg2, AstSize);
    println!("start {start}  ->  extracted {}", ex.extract(&root, &eg2));
    for id in eg2.ids() { for n in eg2.enodes(id) { println!("   {id:?}: {n:?}"); } }
}
