use slotted_egraphs::*;
fn main() { let s = Slot::fresh(); println!("{s}"); }
