use slotted_egraphs::*;
use verif_harness::langs::T;
fn main() {
    let mut eg: EGraph<T> = EGraph::default();
    let a = eg.add_syn_expr(RecExpr::parse("(f3 $1 $2 $3)").unwrap());
    let b = eg.add_syn_expr(RecExpr::parse("(f3 $2 $3 $1)").unwrap());
    eg.union_justified(&a, &b, Some("j".into()));
    eg.dump();
    #[cfg(feature = "explanations")]
    {
        let p = eg.explain_equivalence(RecExpr::parse("(f3 $1 $2 $3)").unwrap(), RecExpr::parse("(f3 $2 $3 $1)").unwrap());
        println!("{}", p.to_string(&eg));
        let p = eg.explain_equivalence(RecExpr::parse("(f3 $1 $2 $3)").unwrap(), RecExpr::parse("(f3 $3 $1 $2)").unwrap());
        println!("{}", p.to_string(&eg));
    }
}
