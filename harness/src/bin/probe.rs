use slotted_egraphs::*;
use verif_harness::langs::A;
fn main() {
    let start: RecExpr<A> = RecExpr::parse("(let $1 (mul (add 2 (var $3)) (mul 1 0)) 2)").unwrap();
    let mut eg: EGraph<A> = EGraph::default();
    eg.add_expr(start);
    let rws: Vec<Rewrite<A>> = vec![
        Rewrite::new("comm-mul", "(mul ?a ?b)", "(mul ?b ?a)"),
        Rewrite::new("add-0", "(add ?a 0)", "?a"),
        Rewrite::new("let-add", "(let $1 (add ?a ?b) ?c)", "(add (let $1 ?a ?c) (let $1 ?b ?c))"),
        Rewrite::new("assoc-mul", "(mul (mul ?a ?b) ?c)", "(mul ?a (mul ?b ?c))"),
        Rewrite::new("let-mul", "(let $1 (mul ?a ?b) ?c)", "(mul (let $1 ?a ?c) (let $1 ?b ?c))"),
        Rewrite::new("mul-0", "(mul ?a 0)", "0"),
    ];
    for i in 0..5 {
        let t = std::time::Instant::now();
        let ch = apply_rewrites(&mut eg, &rws);
        println!("iter {i}: changed={ch} nodes={} classes={} {:.2}s", eg.total_number_of_nodes(), eg.ids().len(), t.elapsed().as_secs_f64());
        if eg.total_number_of_nodes() > 3000 { break; }
    }
}
