use slotted_egraphs::*;
use verif_harness::langs::T;
fn main() {
    #[cfg(feature = "explanations")]
    {
        let mut eg: EGraph<T> = EGraph::default();
        let args: Vec<String> = std::env::args().skip(1).collect();
        // pairs of terms: union_justified(a, b)
        for (k, w) in args.chunks(2).enumerate() {
            let a = eg.add_syn_expr(RecExpr::parse(&w[0]).unwrap());
            let b = eg.add_syn_expr(RecExpr::parse(&w[1]).unwrap());
            eg.union_justified(&a, &b, Some(format!("eq{k}")));
            println!("union {} = {} done", w[0], w[1]);
        }
        eg.check();
        println!("ok");
    }
}
