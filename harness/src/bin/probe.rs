use slotted_egraphs::*;
use std::collections::BTreeSet;

define_language! {
    pub enum L { F(AppliedId) = "f", H(AppliedId, AppliedId) = "h", Symbol(Symbol), }
}

#[derive(Default)]
struct Leaves;
impl Analysis<L> for Leaves {
    type Data = BTreeSet<String>;
    fn make(eg: &EGraph<L, Self>, enode: &L) -> Self::Data {
        let mut s = BTreeSet::new();
        if let L::Symbol(x) = enode { s.insert(format!("{x:?}")); }
        for x in enode.applied_id_occurrences() { s.extend(eg.analysis_data(x.id).iter().cloned()); }
        s
    }
    fn merge(mut l: Self::Data, r: Self::Data) -> Self::Data { l.extend(r); l }
}

fn add(eg: &mut EGraph<L, Leaves>, s: &str) -> AppliedId { eg.add_expr(RecExpr::parse(s).unwrap()) }

fn main() {
    let mut eg = EGraph::<L, Leaves>::default();
    let p = add(&mut eg, "p");
    let n = add(&mut eg, "(h p c)");
    eg.union(&p, &n); // P = {p, h(P, C)}
    let c = add(&mut eg, "c");
    let d = add(&mut eg, "d");
    add(&mut eg, "(f d)");
    add(&mut eg, "(h d d)"); // D is the bigger class, C is merged into D
    eg.union(&c, &d); // h(P, C) is re-made, improves P, re-queues itself under the stale shape
    println!("data of P: {:?}", eg.analysis_data(p.id));
    eg.check();
}
