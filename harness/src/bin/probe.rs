use slotted_egraphs::*;
use verif_harness::langs::A;
fn main() {
    let start: RecExpr<A> = RecExpr::parse(&std::env::var("START").unwrap()).unwrap();
    let mut eg: EGraph<A> = EGraph::with_subst_method::<ExtractionSubst>(());
    eg.add_expr(start);
    let sel: Vec<usize> = std::env::args().skip(1).map(|x| x.parse().unwrap()).collect();
    let all: Vec<(&str, &str, &str)> = vec![
        ("let-subst", "(let $1 ?a ?c)", "?a[(var $1) := ?c]"),
        ("distr", "(mul ?a (add ?b ?c))", "(add (mul ?a ?b) (mul ?a ?c))"),
        ("let-add", "(let $1 (add ?a ?b) ?c)", "(add (let $1 ?a ?c) (let $1 ?b ?c))"),
        ("let-sum", "(let $1 (sum $2 ?a) ?c)", "(sum $2 (let $1 ?a ?c))"),
        ("let-var", "(let $1 (var $1) ?c)", "?c"),
        ("pull-in", "(mul ?a (sum $1 ?b))", "(sum $1 (mul ?a ?b))"),
        ("sum-swap", "(sum $1 (sum $2 ?a))", "(sum $2 (sum $1 ?a))"),
        ("mul0-var", "(mul 0 ?a)", "(mul 0 (var $3))"),
    ];
    let rws: Vec<Rewrite<A>> = all.iter().enumerate().filter(|(i, _)| sel.is_empty() || sel.contains(i)).map(|(_, (n, l, r))| Rewrite::new(n, l, r)).collect();
    for i in 0..4 {
        let ch = apply_rewrites(&mut eg, &rws);
        println!("iter {i}: changed={ch} nodes={} classes={}", eg.total_number_of_nodes(), eg.ids().len());
        let ex = Extractor::<A, AstSize>::new(&eg, AstSize);
        let _ = ex;
    }
}
