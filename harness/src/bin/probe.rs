use slotted_egraphs::*;
use verif_harness::langs::T;
fn main() {
    let mut eg: EGraph<T> = EGraph::default();
    let a = eg.add_syn_expr(RecExpr::parse("(f $1 $2)").unwrap());
    let b = eg.add_syn_expr(RecExpr::parse("(v $2)").unwrap());
    #[cfg(feature = "explanations")]
    eg.union_justified(&a, &b, Some("fv".to_string()));
    #[cfg(not(feature = "explanations"))]
    eg.union(&a, &b);
    let args: Vec<String> = std::env::args().skip(1).collect();
    let mut hs = Vec::new();
    for t in &args { let h = eg.add_syn_expr(RecExpr::parse(t).unwrap()); println!("added {t} -> {h:?}"); hs.push(h); }
    println!("eq: {}", eg.eq(&hs[0], &hs[1]));
    #[cfg(feature = "explanations")]
    {
        let p = eg.explain_equivalence(RecExpr::parse(&args[0]).unwrap(), RecExpr::parse(&args[1]).unwrap());
        println!("{}", p.to_string(&eg));
    }
}
