use slotted_egraphs::*;
use verif_harness::langs::T;
fn main() {
    let mut eg: EGraph<T> = EGraph::default();
    let t = std::env::args().nth(1).unwrap();
    let p = std::env::args().nth(2).unwrap();
    eg.add_expr(RecExpr::parse(&t).unwrap());
    let pat: Pattern<T> = Pattern::parse(&p).unwrap();
    for m in ematch_all(&eg, &pat) { println!("{m:?}"); }
    eg.dump();
}
