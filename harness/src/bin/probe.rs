use slotted_egraphs::*;
use verif_harness::langs::T;
fn main() {
    // repeated in fresh e-graphs: the iteration order of the group's HashSet differs
    let mut bad = 0;
    for round in 0..40 {
        let mut eg: EGraph<T> = EGraph::default();
        let add = |eg: &mut EGraph<T>, s: &str| eg.add_expr(RecExpr::parse(s).unwrap());
        let h = add(&mut eg, "(h (f $1 $2) (f $3 $4))");
        let k = add(&mut eg, "(f3 $1 $3 $4)");
        eg.union(&h, &k);
        let a = add(&mut eg, "(f $1 $2)");
        let b = add(&mut eg, "(f $2 $1)");
        eg.union(&a, &b);
        let x = add(&mut eg, "(h (f $1 $2) (f $3 $4))");
        let y = add(&mut eg, "(h (f $1 $2) (f $4 $3))");
        let e = eg.eq(&x, &y);
        if !e { bad += 1; if bad == 1 { println!("round {round}: h(f12,f34) != h(f12,f43)  x={x:?} y={y:?}"); eg.dump(); } }
    }
    println!("missing equality in {bad}/40 rounds");
}
