use slotted_egraphs::*;
define_language! {
    pub enum T2 { F(AppliedId) = "f", G(AppliedId) = "g", H(AppliedId) = "h", Sym(Symbol), }
}
const CAP: usize = 10;
#[derive(Default)]
pub struct Depth;
impl Analysis<T2> for Depth {
    type Data = usize;
    fn make(eg: &EGraph<T2, Self>, n: &T2) -> usize {
        let m = n.applied_id_occurrences().iter().map(|x| *eg.analysis_data(x.id)).max().unwrap_or(0);
        (m + 1).min(CAP)
    }
    fn merge(a: usize, b: usize) -> usize { a.max(b) }
}
fn main() {
    let mut eg = EGraph::<T2, Depth>::default();
    let a = eg.add_expr(RecExpr::parse("a").unwrap());
    let fa = eg.add_expr(RecExpr::parse("(f a)").unwrap());
    eg.add_expr(RecExpr::parse("(g (f a))").unwrap());
    eg.add_expr(RecExpr::parse("(h (f a))").unwrap());
    eg.union(&a, &fa);
    for i in eg.ids() {
        let want = eg.enodes(i).iter().map(|n| Depth::make(&eg, n)).max().unwrap();
        println!("class {:?}: datum {} join-of-make {}", i, eg.analysis_data(i), want);
    }
}
