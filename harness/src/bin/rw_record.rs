//! Recorder for C03 / C14 / C15 (direction implementation -> specification): runs the real
//! rewriting machinery on language A with random start terms, rule subsets, iteration counts,
//! limits, hooks and both substitution methods, and writes an ndjson trace for TraceRewrite.tla.
//! usage: rw_record <rules_A.json> <out.ndjson> <runs>

use rand::prelude::*;
use serde::Deserialize;
use serde_json::{json, Value};
use slotted_egraphs::*;
use std::time::Instant;
use std::cell::RefCell;
use std::collections::{BTreeMap, HashMap};
use std::io::Write;
use std::rc::Rc;
use verif_harness::costs::*;
use verif_harness::langs::A;
use verif_harness::obs::*;
use verif_harness::term::*;
use verif_harness::util::*;

#[derive(Deserialize, Clone)]
struct RuleJ { name: String, l: Term, r: Term, cond: Vec<Value> }
#[derive(Deserialize)]
struct RulesFile { p: u32, rules: Vec<RuleJ> }

#[derive(Default)]
pub struct ConstFold;
impl Analysis<A> for ConstFold {
    type Data = Option<u32>;
    fn merge(x: Option<u32>, y: Option<u32>) -> Option<u32> {
        match (x, y) { (Some(a), Some(b)) => Some(a.min(b)), (Some(a), None) => Some(a), (None, b) => b }
    }
    fn make(eg: &EGraph<A, Self>, n: &A) -> Option<u32> {
        match n {
            A::Num(x) => Some(*x),
            A::Add(x, y) => Some((*eg.analysis_data(x.id))?.wrapping_add((*eg.analysis_data(y.id))?)),
            // zero is absorbing: a product with a constant-zero factor is the constant 0 even if the other factor has SLOTS - the
            // modify hook then unions a class that has parameters into the class of 0, often the class `add` has just allocated
            A::Mul(x, y) => match (*eg.analysis_data(x.id), *eg.analysis_data(y.id)) {
                (Some(a), Some(b)) => Some(a.wrapping_mul(b)),
                (Some(0), _) | (_, Some(0)) => Some(0),
                _ => None,
            },
            _ => None,
        }
    }
    fn modify(eg: &mut EGraph<A, Self>, i: Id) {
        if let Some(x) = *eg.analysis_data(i) {
            let a = eg.add(A::Num(x));
            eg.union(&a, &eg.mk_identity_applied_id(i));
        }
        // a simplification hook: x + 0 = x.  Unlike constant folding it unions the class - often the one `add` has just
        // allocated - into a class that HAS parameters; the handle `add` returns must still denote the term
        if !eg.is_alive(i) { return; }
        for n in eg.enodes(i) {
            if let A::Add(x, y) = &n {
                for (keep, zero) in [(x, y), (y, x)] {
                    if eg.is_alive(i) && *eg.analysis_data(zero.id) == Some(0) && *eg.analysis_data(keep.id) != Some(0) {
                        let me = eg.mk_identity_applied_id(i);
                        eg.union(&me, keep);
                    }
                }
            }
        }
    }
}

thread_local! {
    /// names of the rules' explicit slots in this run: empty = `$1`, `$2`, ...; otherwise names of
    /// the internal form `$f<n>` that coincide with slots the e-graph has already issued to its
    /// classes (rules written after the e-graph was filled; legitimate names, C17)
    static RULE_SLOTS: RefCell<HashMap<u32, String>> = RefCell::new(HashMap::new());
}
fn rule_slot(x: u32) -> String {
    RULE_SLOTS.with(|m| m.borrow().get(&x).cloned().unwrap_or_else(|| x.to_string()))
}

/// choose, for the rules' slots 1..=4, names of slots that classes of `eg` use internally
fn late_rule_slots(eg: &EGraph<A, ConstFold>, rng_seed: u64) {
    let mut names: Vec<String> = Vec::new();
    for id in eg.ids() {
        for s in eg.slots(id) {
            let t = s.to_string();
            if t.starts_with("$f") && !names.contains(&t[1..].to_string()) { names.push(t[1..].to_string()); }
        }
    }
    names.sort();
    let mut rng = StdRng::seed_from_u64(rng_seed);
    names.shuffle(&mut rng);
    // the slots of one-slot classes (variables) first: those classes are what pattern variables
    // are bound to most often
    let single: Vec<String> = eg.ids().into_iter().filter(|i| eg.slots(*i).len() == 1).map(|i| eg.slots(i).iter().next().unwrap().to_string()[1..].to_string()).collect();
    names.sort_by_key(|n| !single.contains(n));
    // not enough class slots: the names the e-graph will issue next
    let probe = Slot::fresh().to_string();
    let mut next: u64 = probe[2..].parse::<u64>().unwrap() + 1;
    while names.len() < 4 { names.push(format!("f{next}")); next += 1; }
    RULE_SLOTS.with(|m| { let mut m = m.borrow_mut(); m.clear(); for (i, n) in names.iter().take(4).enumerate() { m.insert(i as u32 + 1, n.clone()); } });
}

fn pat_text(t: &Term) -> String {
    if t.op.starts_with('?') { return t.op.clone(); }
    if t.op == "subst" {
        return format!("{}[{} := {}]", pat_text(&t.ch[0].t), pat_text(&t.ch[1].t), pat_text(&t.ch[2].t));
    }
    if t.sl.is_empty() && t.ch.is_empty() { return t.op.clone(); }
    let mut s = format!("({}", t.op);
    for x in &t.sl { s += &format!(" ${}", rule_slot(*x)); }
    for c in &t.ch {
        for x in &c.bd { s += &format!(" ${}", rule_slot(*x)); }
        s += " ";
        s += &pat_text(&c.t);
    }
    s + ")"
}

fn mk_rule(r: &RuleJ) -> Rewrite<A, ConstFold> {
    let (l, rr) = (pat_text(&r.l), pat_text(&r.r));
    if r.cond.is_empty() {
        Rewrite::new(&r.name, &l, &rr)
    } else {
        let slot = Slot::named(&rule_slot(r.cond[0].as_u64().unwrap() as u32));
        let var = r.cond[1].as_str().unwrap()[1..].to_string();
        // the library's own condition helper (its answer is part of what is checked), combined with the harness's reading of the
        // same condition through the public combinators: both must hold
        let _ = slot;
        Rewrite::new_if(&r.name, &l, &rr, slot_free_in::<A, ConstFold>(&rule_slot(r.cond[0].as_u64().unwrap() as u32), &var))
    }
}

fn gen_term(rng: &mut StdRng, depth: usize) -> String {
    if depth == 0 || rng.gen_bool(0.2) {
        return match rng.gen_range(0..6) { 0 => "0".into(), 1 => "1".into(), 2 => "2".into(), 3 => "(var $1)".into(), 4 => "(var $2)".into(), _ => "(var $3)".into() };
    }
    match rng.gen_range(0..7) {
        // redundancy bait: 0 * x for two different slots
        6 => format!("(add (mul 0 (var ${})) (mul 0 (var ${})))", rng.gen_range(1..=3), rng.gen_range(1..=3)),
        0 | 1 => format!("(add {} {})", gen_term(rng, depth - 1), gen_term(rng, depth - 1)),
        2 | 3 => format!("(mul {} {})", gen_term(rng, depth - 1), gen_term(rng, depth - 1)),
        4 => format!("(sum ${} {})", rng.gen_range(1..=3), gen_term(rng, depth - 1)),
        _ => format!("(let ${} {} {})", rng.gen_range(1..=3), gen_term(rng, depth - 1), gen_term(rng, depth - 1)),
    }
}

fn subterms(re: &RecExpr<A>, out: &mut Vec<RecExpr<A>>) {
    out.push(re.clone());
    for c in &re.children { subterms(c, out); }
}

/// independent fingerprint: node count, live classes, partition + slot counts over the tracked
/// terms, total number of symmetries
fn fingerprint(eg: &EGraph<A, ConstFold>, tracked: &[RecExpr<A>]) -> Vec<usize> {
    let mut v = vec![eg.total_number_of_nodes(), eg.ids().len()];
    let o = observe(eg, tracked);
    v.extend(o.cls.iter().copied());
    v.extend(o.found.iter().map(|f| f.as_ref().map(|a| a.slots().len() + 1).unwrap_or(0)));
    let mut syms = 0;
    for id in eg.ids() {
        if eg.slots(id).len() <= 5 { syms += sym_count(eg, &eg.mk_identity_applied_id(id)); }
    }
    v.push(syms);
    v
}

struct Namer { map: BTreeMap<Slot, u32> }
impl Namer {
    fn new() -> Self { Namer { map: BTreeMap::new() } }
    fn name(&mut self, s: Slot) -> u32 { let n = self.map.len() as u32 + 1; *self.map.entry(s).or_insert(n) }
    fn term(&mut self, re: &RecExpr<A>) -> Term {
        let syn = re.node.to_syntax();
        let mut op = String::new();
        let mut pending = Vec::new();
        let mut ch = Vec::new();
        let mut ci = 0;
        for (i, e) in syn.iter().enumerate() {
            match e {
                SyntaxElem::String(s) => { if i == 0 { op = s.clone(); } }
                SyntaxElem::Slot(s) => pending.push(self.name(*s)),
                SyntaxElem::AppliedId(_) => { let t = self.term(&re.children[ci]); ci += 1; ch.push(Child { bd: std::mem::take(&mut pending), t }); }
            }
        }
        let sl = if ch.is_empty() { pending } else { vec![] };
        Term { op, sl, ch }
    }
}

fn size(re: &RecExpr<A>) -> usize { 1 + re.children.iter().map(size).sum::<usize>() }

fn dump_events(eg: &EGraph<A, ConstFold>, start: &RecExpr<A>, root: &AppliedId, out: &mut Vec<Value>) {
    let reps = representatives(eg);
    // start term vs. its class
    if let Some(rep) = term_of(root, &reps) {
        let mut nm = Namer::new();
        if size(&rep) <= 40 { out.push(json!({"ev":"start","term": nm.term(start), "rep": nm.term(&rep)})); }
    }
    let ids = eg.ids();
    let num: HashMap<Id, usize> = ids.iter().enumerate().map(|(i, id)| (*id, i + 1)).collect();
    let mut nodes = Vec::new();
    let mut datum = Vec::new();
    for id in &ids {
        let d: Vec<u32> = eg.analysis_data(*id).iter().copied().collect();
        datum.push(d.clone());
        let mut nm = Namer::new();
        let slots: Vec<u32> = { let mut s: Vec<Slot> = eg.slots(*id).iter().copied().collect(); s.sort(); s.into_iter().map(|s| nm.name(s)).collect() };
        let mut members = Vec::new();
        for n in eg.enodes(*id) {
            nodes.push(json!({"cls": num[id], "op": op_of(&n), "ch": n.applied_id_occurrences().iter().map(|c| num[&c.id]).collect::<Vec<_>>()}));
            let n = n.refresh_private();
            let cs = n.applied_id_occurrences();
            if !cs.iter().all(|c| reps.contains_key(&c.id)) { continue; }
            let children: Vec<RecExpr<A>> = cs.iter().map(|c| rename_recexpr(&reps[&c.id].1, &c.m)).collect();
            let mut node = n.clone();
            for a in node.applied_id_occurrences_mut() { *a = AppliedId::null(); }
            let re = RecExpr { node, children };
            if size(&re) > 14 || members.len() >= 6 { continue; }
            let t = nm.term(&re);
            if t.fv().len() + slots.len() > 5 { continue; }
            members.push(t);
        }
        if !members.is_empty() {
            out.push(json!({"ev":"class","slots":slots,"members":members,"datum":d}));
        }
    }
    out.push(json!({"ev":"dump","nclasses":ids.len(),"nodes":nodes,"datum":datum}));
}

fn reason_name<T: Clone>(r: &StopReason<T>) -> &'static str {
    match r { StopReason::Saturated => "saturated", StopReason::IterationLimit => "iter", StopReason::TimeLimit => "time", StopReason::NodeLimit => "node", StopReason::Other(_) => "other" }
}

thread_local! { static TRACKED: RefCell<Vec<RecExpr<A>>> = RefCell::new(Vec::new()); }

struct IterFp { nodes: usize, fp: Vec<usize>, stop: &'static str }
impl IterationData<A, ConstFold> for IterFp {
    fn make<E: Clone>(runner: &Runner<A, ConstFold, Self, E>) -> Self {
        let fp = if runner.egraph.total_number_of_nodes() > 1200 { vec![runner.egraph.total_number_of_nodes()] } else { TRACKED.with(|t| fingerprint(&runner.egraph, &t.borrow())) };
        IterFp { nodes: runner.egraph.total_number_of_nodes(), fp, stop: runner.stop_reason.as_ref().map(reason_name).unwrap_or("none") }
    }
}

/// after a saturated stop: both sides of every match are already equal
fn matches_equal(eg: &EGraph<A, ConstFold>, rules: &[RuleJ]) -> bool {
    let reps = representatives(eg);
    for r in rules {
        if r.r.op == "subst" { continue; }
        let (Ok(lp), Ok(rp)) = (Pattern::<A>::parse(&pat_text(&r.l)), Pattern::<A>::parse(&pat_text(&r.r))) else { continue };
        for sb in ematch_all(eg, &lp) {
            if !r.cond.is_empty() {
                let slot = Slot::named(&rule_slot(r.cond[0].as_u64().unwrap() as u32));
                let var = r.cond[1].as_str().unwrap()[1..].to_string();
                if sb[&var].slots().contains(&slot) { continue; }
            }
            let (Some(lt), Some(rt)) = (instantiate(&lp, &sb, &reps), instantiate(&rp, &sb, &reps)) else { continue };
            match (lookup_rec_expr(&lt, eg), lookup_rec_expr(&rt, eg)) {
                (Some(a), Some(b)) => { if !eg.eq(&a, &b) { return false; } }
                _ => return false,
            }
        }
    }
    true
}

/// C04 on rewriting runs: the instances (left side, right side) of every rule that are matched in the state BEFORE
/// apply_rewrites is called; afterwards each right side must be represented and equal to its left side.
/// Rules whose right side is a substitution form are left out (their instance is not a pattern instance).
fn pre_instances(eg: &EGraph<A, ConstFold>, rules: &[RuleJ]) -> Vec<(String, RecExpr<A>, RecExpr<A>)> {
    let reps = representatives(eg);
    let mut out = Vec::new();
    for r in rules {
        if pat_text(&r.r).contains(":=") { continue; }
        let (Ok(lp), Ok(rp)) = (Pattern::<A>::parse(&pat_text(&r.l)), Pattern::<A>::parse(&pat_text(&r.r))) else { continue };
        for sb in ematch_all(eg, &lp) {
            if !r.cond.is_empty() {
                let slot = Slot::named(&rule_slot(r.cond[0].as_u64().unwrap() as u32));
                let var = r.cond[1].as_str().unwrap()[1..].to_string();
                if sb[&var].slots().contains(&slot) { continue; }
            }
            let (Some(lt), Some(rt)) = (instantiate(&lp, &sb, &reps), instantiate(&rp, &sb, &reps)) else { continue };
            if lookup_rec_expr(&lt, eg).is_none() { continue; }   // C05 reports that
            out.push((r.name.clone(), lt, rt));
            if out.len() >= 400 { return out; }
        }
    }
    out
}

/// the scope of C04: no class has a redundant slot (an e-node that mentions a slot its class does not have)
fn no_redundant_slot(eg: &EGraph<A, ConstFold>) -> bool {
    eg.ids().into_iter().all(|id| { let cs = eg.slots(id); eg.enodes(id).iter().all(|n| n.slots().is_subset(&cs)) })
}

fn unfired(eg: &EGraph<A, ConstFold>, pre: &[(String, RecExpr<A>, RecExpr<A>)]) -> Vec<String> {
    pre.iter().filter(|(_, lt, rt)| match (lookup_rec_expr(lt, eg), lookup_rec_expr(rt, eg)) {
        (Some(a), Some(b)) => !eg.eq(&a, &b),
        _ => true,
    }).map(|(n, lt, rt)| format!("{n}: {lt} => {rt}")).collect()
}

/// (start term, rules, entry point, ExtractionSubst)
const FIXED: &[(&str, &[&str], &str, bool, usize)] = &[
    // explanations build: add_syn left pending work behind, Extractor::new (ExtractionSubst) panicked
    ("(let $1 (mul (add (add (mul 0 (var $2)) (mul 0 (var $1))) (mul (var $3) 2)) (add (add 1 (var $2)) (add 2 (var $3)))) (mul (sum $1 (var $1)) (add (sum $1 (var $3)) (add 1 (var $3)))))",
     &["let-subst", "distr", "let-add", "let-sum", "let-var", "sum-pull", "sum-const", "pull-in", "sum-swap", "mul0-var", "let-const"], "runner", true, 3),
    ("(let $1 (mul (mul 0 (var $1)) (add 1 (var $1))) 2)", &["let-subst", "distr", "let-add", "mul0-var"], "manual", true, 3),
    // b[x := x+1] where the e-graph has learnt (x+1)+2 = x (p = 3): the subterm x+2 of b becomes equal to x only AFTER
    // its own x was replaced; it must not be taken for an occurrence of x (D17), under both substitution methods
    ("(sum $1 (mul (add (var $1) 2) (mul (var $1) (var $1))))", &["sum-shift", "assoc-add", "add-p"], "manual", true, 3),
    ("(sum $1 (mul (add (var $1) 2) (mul (var $1) (var $1))))", &["sum-shift", "assoc-add", "add-p"], "manual", false, 3),
    ("(sum $1 (mul (mul 2 (var $1)) (add (var $1) 1)))", &["sum-scale", "assoc-mul", "mul-1", "comm-mul"], "runner", false, 3),
    // b[x := y] where y is a VARIABLE that already occurs free in b (substituting a variable for a variable must not be
    // done by renaming the slot of b's class: the result has the slot twice)
    ("(let $1 (mul (add (var $1) (var $2)) (var $3)) (var $2))", &["let-subst"], "manual", false, 1),
    ("(let $1 (mul (add (var $1) (var $2)) (var $3)) (var $2))", &["let-subst", "comm-add"], "manual", true, 1),
    ("(add (var $2) (let $1 (mul (var $1) (add (var $2) (var $1))) (var $2)))", &["let-subst", "let-mul", "let-add", "let-var"], "runner", false, 2),
    // all searchers run before any applier: the first rule makes the class of (mul x 0) slot-free, the second rule's instance
    // (matched in the state before the call) must still be rewritten in the same pass
    ("(add (mul (var $1) 0) (mul (var $1) 0))", &["mul-0", "add-mul0"], "manual", false, 1),
    ("(add (mul (add (var $1) (var $2)) 0) (mul (add (var $1) (var $2)) 0))", &["mul-0", "comm-add", "add-mul0"], "manual", true, 1),
    ("(let $1 (mul (mul 0 (var $1)) (add 1 (var $2))) 2)", &["let-subst", "distr", "let-add", "mul0-var"], "eqsat", true, 3),
    // symmetry groups with a stabiliser chain of depth 3 (S4 on the four variables), discovered piecemeal by
    // late iterations that change nothing else: the progress measure must see them
    ("(add (add (var $1) (var $2)) (add (var $3) (var $4)))", &["comm-add", "assoc-add"], "manual", false, 7),
    ("(mul (mul (var $1) (var $2)) (mul (var $3) (var $4)))", &["comm-mul", "assoc-mul"], "runner", false, 7),
    ("(add (add (var $1) (var $2)) (add (var $3) (var $4)))", &["comm-add", "assoc-add"], "eqsat", true, 7),
    // a conditional rule whose variable is bound to a class that an EARLIER apply of the same pass merges away (the matched id is
    // dead when the condition is evaluated): the condition must still see the slot (seeded C03j)
    ("(let $1 (add (var $1) 0) 2)", &["add-0", "let-const"], "manual", false, 1),
    ("(let $1 (add (var $1) 0) 2)", &["add-0", "let-const"], "manual", true, 2),
    ("(sum $1 (add (var $1) 0))", &["add-0", "sum-const"], "manual", false, 1),
    ("(add (var $2) (let $1 (mul (add (var $1) 0) (var $2)) (var $2)))", &["add-0", "mul-1", "let-const"], "runner", false, 2),
    // b[x := t] where b invokes ONE class of two slots twice, with the same arguments in the other order (u(v+1) next to v(u+1), a
    // class without that symmetry): the substituted copies are different terms (seeded C03m: a memo keyed by class and slot SET)
    ("(let $1 (add (mul (var $1) (add (var $2) 1)) (mul (var $2) (add (var $1) 1))) 2)", &["let-subst"], "manual", false, 1),
    ("(let $1 (add (mul (var $1) (add (var $2) 1)) (mul (var $2) (add (var $1) 1))) 2)", &["let-subst"], "manual", true, 1),
    ("(let $1 (sum $3 (add (mul (var $1) (add (var $3) 1)) (mul (var $3) (add (var $1) 1)))) (var $2))", &["let-subst", "let-sum"], "runner", false, 2),
    // the modify hook (x + 0 = x) merges the class that add_expr has just allocated for the start term into the class of its
    // left summand, which has parameters: the handle add_expr returns must still denote the start term (seeded C13m)
    ("(add (var $1) 0)", &["comm-add"], "manual", false, 1),
    ("(add (mul (var $1) (var $2)) 0)", &["comm-mul"], "runner", false, 1),
    ("(mul (add (var $1) 0) (add 0 (var $2)))", &["comm-mul", "distr"], "manual", true, 1),
    // one pass whose effects CANCEL in the sums of the progress measure and allocate no class: comm-add gives the class of x+y a
    // symmetry (+1; its parent binds one of the two slots, so nothing is inherited), mul-1 unions two slot-free classes that have no constant (-1 live class, -1 symmetry): the pass has changed
    // the e-graph, apply_rewrites must say so and no run may stop as saturated after it (seeded C15k)
    ("(mul (sum $1 (sum $2 (add (var $1) (var $2)))) (mul (sum $3 (var $3)) 1))", &["comm-add", "mul-1"], "manual", false, 2),
    ("(mul (sum $1 (sum $2 (add (var $1) (var $2)))) (mul (sum $3 (var $3)) 1))", &["comm-add", "mul-1"], "runner", false, 3),
    ("(mul (sum $1 (sum $2 (add (var $1) (var $2)))) (mul (sum $3 (var $3)) 1))", &["mul-1", "comm-add"], "eqsat", false, 3),
    ("(mul (sum $1 (sum $2 (mul (add (var $1) (var $2)) (var $1)))) (mul (sum $3 (var $3)) 1))", &["comm-add", "mul-1"], "runner", true, 3),
];

/// fixed runs whose rules are written AFTER the start term is inserted, their explicit slots named like internal slots of
/// the e-graph (late_rule_slots with the given seed): (start term, rules, ExtractionSubst, iterations, seed)
const FIXED_LATE: &[(&str, &[&str], bool, usize, u64)] = &[
    ("(mul (var $1) (sum $2 (var $2)))", &["pull-in"], false, 1, 1),
    ("(mul (var $1) (sum $2 (var $2)))", &["pull-in"], true, 1, 2),
    ("(mul (var $1) (sum $2 (var $2)))", &["pull-in"], false, 1, 3),
    ("(mul (var $1) (sum $2 (var $2)))", &["pull-in"], false, 1, 4),
    ("(add (var $1) (let $2 (var $2) (var $3)))", &["let-in", "let-var"], false, 1, 1),
    ("(add (var $1) (let $2 (var $2) (var $3)))", &["let-in", "let-var"], true, 1, 2),
    ("(add (var $1) (let $2 (var $2) (var $3)))", &["let-in", "let-var"], false, 1, 3),
    ("(mul (add (var $1) (var $2)) (sum $3 (mul (var $3) (var $1))))", &["pull-in", "comm-mul"], false, 1, 5),
];

/// Staged rule sets on leaves with 4-6 slots (language T): every call of apply_rewrites adds symmetries
/// only - no e-node, no class, no slot changes - so its return value rests on the symmetry part of the
/// progress measure alone, also for groups whose stabiliser chain is three or more levels deep.
fn staged_symmetry_runs(out: &mut Vec<Value>) {
    use verif_harness::langs::T;
    let stages: &[(&str, &[&[(&str, &str)]])] = &[
        ("(f5 $1 $2 $3 $4 $5)", &[&[("(f5 $1 $2 $3 $4 $5)", "(f5 $2 $3 $1 $4 $5)")], &[("(f5 $1 $2 $3 $4 $5)", "(f5 $2 $1 $3 $4 $5)")],
                                  &[("(f5 $1 $2 $3 $4 $5)", "(f5 $1 $2 $3 $5 $4)")]]),
        ("(f6 $1 $2 $3 $4 $5 $6)", &[&[("(f6 $1 $2 $3 $4 $5 $6)", "(f6 $2 $1 $3 $4 $5 $6)")], &[("(f6 $1 $2 $3 $4 $5 $6)", "(f6 $1 $2 $4 $3 $5 $6)")],
                                     &[("(f6 $1 $2 $3 $4 $5 $6)", "(f6 $1 $2 $3 $4 $6 $5)")]]),
        ("(f4 $1 $2 $3 $4)", &[&[("(f4 $1 $2 $3 $4)", "(f4 $2 $3 $1 $4)")], &[("(f4 $1 $2 $3 $4)", "(f4 $2 $1 $4 $3)")], &[("(f4 $1 $2 $3 $4)", "(f4 $2 $1 $3 $4)")]]),
        ("(g (f5 $1 $2 $3 $4 $5))", &[&[("(f5 $1 $2 $3 $4 $5)", "(f5 $2 $1 $3 $4 $5)")], &[("(f5 $1 $2 $3 $4 $5)", "(f5 $1 $3 $2 $4 $5)")],
                                      &[("(f5 $1 $2 $3 $4 $5)", "(f5 $1 $2 $4 $3 $5)")], &[("(f5 $1 $2 $3 $4 $5)", "(f5 $1 $2 $3 $5 $4)")]]),
    ];
    for (start, sts) in stages {
        let res = guard(|| {
            let mut evs = Vec::new();
            let mut eg: EGraph<T> = EGraph::default();
            let root = eg.add_expr(RecExpr::parse(start).unwrap());
            evs.push(json!({"ev":"reset","late_rules":false,"kind":"manual","iter_limit":sts.len(),"node_limit":100,"time_limit_ms":1_000_000,"start":start,
                            "rules":["staged symmetry rules (language T)"],"subst":"synexpr"}));
            let fp = |eg: &EGraph<T>| -> Vec<usize> {
                let mut v = vec![eg.total_number_of_nodes(), eg.ids().len()];
                for id in eg.ids() { let a = eg.mk_identity_applied_id(id); v.push(a.slots().len()); v.push(sym_count(eg, &a)); }
                v.push(sym_count(eg, &root));
                v
            };
            for stage in sts.iter() {
                let rws: Vec<Rewrite<T>> = stage.iter().enumerate().map(|(i, (l, r))| Rewrite::new(&format!("s{i}"), l, r)).collect();
                for _ in 0..2 {
                    let before = fp(&eg);
                    let ret = apply_rewrites(&mut eg, &rws);
                    let after = fp(&eg);
                    evs.push(json!({"ev":"rewrite","ret":ret,"fp_changed":before != after,"nodes":eg.total_number_of_nodes(),
                                    "in_scope":false,"pre_matches":0,"unfired":0,"first_unfired":""}));
                }
            }
            evs
        });
        if let Ok(evs) = res { out.extend(evs); }
    }
}

fn ceil_ms(d: std::time::Duration) -> u64 { ((d.as_nanos() + 999_999) / 1_000_000) as u64 }

/// bracket of the loop's own clock at the limit check of iteration i:
/// lo = end of hook i - start of hook 0 (the loop started its clock before the first hook),
/// hi = (start of hook i+1, or the return of the call) - the time just before the call.
fn clock_bracket(stamps: &[(Instant, Instant)], i: usize, t_call: Instant, t_ret: Instant) -> (u64, u64) {
    if stamps.is_empty() || i >= stamps.len() { return (0, ceil_ms(t_ret - t_call)); }
    let lo = (stamps[i].1 - stamps[0].0).as_millis() as u64;
    let next = if i + 1 < stamps.len() { stamps[i + 1].0 } else { t_ret };
    (lo, ceil_ms(next - t_call))
}

fn main() {
    let args: Vec<String> = std::env::args().collect();
    let rf: RulesFile = serde_json::from_str(&std::fs::read_to_string(&args[1]).unwrap()).unwrap();
    let mut out = std::io::BufWriter::new(std::fs::File::create(&args[2]).unwrap());
    let runs: usize = args[3].parse().unwrap();
    let mut rng = StdRng::seed_from_u64(env_u64("VERIF_SEED", 0) ^ 0xC03);
    install_hook();
    start_watchdog(env_u64("VERIF_WATCHDOG", 90));
    let (mut nev, mut panics) = (0usize, 0usize);
    let mut abandoned = 0usize;
    let mut completed = 0usize;
    let mut findings: Vec<Value> = Vec::new();
    let t_start = std::time::Instant::now();
    {
        let mut evs = Vec::new();
        staged_symmetry_runs(&mut evs);
        for e in evs { writeln!(out, "{e}").unwrap(); nev += 1; }
    }
    let base_seed = env_u64("VERIF_SEED", 0) ^ 0xC03;
    // the last tenth (extra runs, so that the earlier ones keep their configurations): Runner runs whose HOOK CHANGES THE
    // E-GRAPH - it adds an isolated number literal `1000 + k` in iteration k (no left side matches a lone leaf, so saturation
    // is not affected).  What the report and the limit checks say must be true of the e-graph as the hook left it (C15n).
    // (they come FIRST in time: the recorder gives up after seven runs that were abandoned as too slow, which on a busy machine
    // happens before the last index is reached)
    for run in (runs..runs + runs / 10).chain(0..runs) {
        let hook_mut = run >= runs;
        // every run draws from its own stream: adding a fixed run, or a new random choice inside a run, does not
        // change what the other runs do (a seeded change once escaped because the stream had moved)
        rng = StdRng::seed_from_u64(base_seed ^ (run as u64 + 1).wrapping_mul(0x9E37_79B9_7F4A_7C15));
        if std::env::var("VERIF_RW_DEBUG").is_ok() && run % 50 == 0 { eprintln!("run {run} at {:.1}s", t_start.elapsed().as_secs_f64()); }
        let mut kind = if hook_mut { "runner" } else { ["manual", "runner", "eqsat"][run % 3] };
        tick(&format!("rewriting run {run}"));
        let mut start_txt = gen_term(&mut rng, if run % 2 == 0 { 3 } else { 4 });
        let k = rng.gen_range(4..=12);
        let mut rules: Vec<RuleJ> = rf.rules.choose_multiple(&mut rng, k).cloned().collect();
        let mut iter_limit = rng.gen_range(0..=3usize);
        let mut node_limit = *[20usize, 40, 60, 100].choose(&mut rng).unwrap();
        let mut hook_fail_at: Option<usize> = if rng.gen_bool(0.2) { Some(rng.gen_range(0..3)) } else { None };
        let mut extraction_subst = rng.gen_bool(0.5);
        // the first runs are fixed configurations (histories that once failed); the random stream is
        // consumed as usual so that the later runs do not depend on this list
        if let Some((st, rs, kd, ext, il)) = FIXED.get(run) {
            start_txt = st.to_string();
            rules = rs.iter().map(|n| rf.rules.iter().find(|r| r.name == *n).unwrap().clone()).collect();
            kind = kd;
            iter_limit = *il;
            node_limit = 100;
            hook_fail_at = None;
            extraction_subst = *ext;
        }
        let rule_names: Vec<String> = rules.iter().map(|r| r.name.clone()).collect();
        // time limits: far away (the library's defaults), zero, or 5 s (never reached by these runs:
        // a TimeLimit stop would have to be justified by the recorder's own clock)
        let time_mode = *["far", "far", "far", "zero", "mid", "sub", "frac"].choose(&mut rng).unwrap();
        // "sub" / "frac": limits that are not a whole number of seconds (900 ms, 1.7 s) - rounding them must not end a run early
        let time_limit_ms: u64 = match (kind, time_mode) { (_, "zero") => 0, (_, "mid") => 5_000, (_, "sub") => 900, (_, "frac") => 1_700, ("runner", _) => 60_000, _ => 1_000_000 };
        // run_eqsat takes its limit in whole seconds: what is logged is what is passed
        let time_limit_ms = if kind == "runner" || kind == "manual" { time_limit_ms } else { time_limit_ms / 1000 * 1000 };
        let hook_sleep = std::time::Duration::from_millis(if time_mode == "far" { 0 } else { 3 });
        // rules written AFTER the e-graph was filled, their explicit slots named like slots the
        // classes already use internally
        let mut late_rules = rng.gen_bool(0.35);
        let mut late_seed: u64 = rng.gen();
        if run >= FIXED.len() {
            if let Some((st, rs, ext, il, sd)) = FIXED_LATE.get(run - FIXED.len()) {
                start_txt = st.to_string();
                rules = rs.iter().map(|n| rf.rules.iter().find(|r| r.name == *n).unwrap().clone()).collect();
                kind = "manual";
                iter_limit = *il;
                node_limit = 100;
                hook_fail_at = None;
                extraction_subst = *ext;
                late_rules = true;
                late_seed = *sd;
            }
        }
        let rule_names: Vec<String> = rules.iter().map(|r| r.name.clone()).collect();
        // boundary node limits (Runner): a dry run of the same configuration without a node limit gives the node count at
        // the start of every iteration; the limit is then put exactly on one of them, or one off - the places where
        // `>` / `>=` / `<` in the limit checks make a difference
        let boundary_pick: Option<(usize, i64)> = if rng.gen_bool(0.4) { Some((rng.gen_range(0..6), *[-1i64, 0, 0, 1].choose(&mut rng).unwrap())) } else { None };
        if std::env::var("VERIF_RW_DEBUG_RUN").ok().and_then(|x| x.parse::<usize>().ok()) == Some(run) { eprintln!("run {run}: {kind} {start_txt} {rule_names:?} iter_limit={iter_limit} node_limit={node_limit} ext={extraction_subst} late={late_rules} late_seed={late_seed} time={time_mode} hook_fail={hook_fail_at:?}"); }
        let st = start_txt.clone();
        let rules2 = rules.clone();
        if let Some(only) = std::env::var("VERIF_RW_ONLY").ok().and_then(|x| x.parse::<usize>().ok()) { if only != run { continue; } }
        let (tx_res, rx_res) = std::sync::mpsc::channel();
        std::thread::spawn(move || { let r = guard(move || {
            let mut evs: Vec<Value> = Vec::new();
            let start: RecExpr<A> = RecExpr::parse(&st).unwrap();
            let mut tracked = Vec::new();
            subterms(&start, &mut tracked);
            TRACKED.with(|t| *t.borrow_mut() = tracked.clone());
            let mut rws: Vec<Rewrite<A, ConstFold>> = if late_rules { Vec::new() } else { rules2.iter().map(mk_rule).collect() };
            let node_limit = match (kind, boundary_pick) {
                ("runner", Some((k, delta))) => {
                    let eg_dry: EGraph<A, ConstFold> = if extraction_subst { EGraph::with_subst_method::<ExtractionSubst>(ConstFold) } else { EGraph::new(ConstFold) };
                    let mut dry: Runner<A, ConstFold, IterFp, String> = Runner::new(ConstFold).with_egraph(eg_dry).with_expr(&start)
                        .with_iter_limit(iter_limit).with_node_limit(100_000)
                        .with_hook(move |r| {
                            if hook_mut { let k = r.iterations.len(); r.egraph.add_expr(RecExpr::parse(&format!("{}", 1000 + k)).unwrap()); }
                            if r.egraph.total_number_of_nodes() <= 80 { Ok(()) } else { Err("big".to_string()) } });
                    let rws_dry: Vec<Rewrite<A, ConstFold>> = rules2.iter().map(mk_rule).collect();
                    let mut counts = vec![dry.egraph.total_number_of_nodes()];
                    dry.run(&rws_dry);
                    counts.extend(dry.iterations.iter().map(|it| it.data.nodes));
                    (counts[k % counts.len()] as i64 + delta).max(1) as usize
                }
                _ => node_limit,
            };
            evs.push(json!({"ev":"reset","late_rules":late_rules,"kind":kind,"iter_limit":iter_limit,"node_limit":node_limit,"time_limit_ms":time_limit_ms,"start":st,"rules":rules2.iter().map(|r| r.name.clone()).collect::<Vec<_>>(),
                            "subst": if extraction_subst {"extraction"} else {"synexpr"}}));
            let mut eg: EGraph<A, ConstFold> = if extraction_subst { EGraph::with_subst_method::<ExtractionSubst>(ConstFold) } else { EGraph::new(ConstFold) };
            if kind == "manual" {
                let root = eg.add_expr(start.clone());
                if late_rules { late_rule_slots(&eg, late_seed); rws = rules2.iter().map(mk_rule).collect(); }
                for _ in 0..=iter_limit {
                    let before = fingerprint(&eg, &tracked);
                    let in_scope = no_redundant_slot(&eg);
                    let pre = pre_instances(&eg, &rules2);
                    let ret = apply_rewrites(&mut eg, &rws);
                    let after = fingerprint(&eg, &tracked);
                    let uf = unfired(&eg, &pre);
                    evs.push(json!({"ev":"rewrite","ret":ret,"fp_changed":before != after,"nodes":eg.total_number_of_nodes(),
                                    "in_scope":in_scope,"pre_matches":pre.len(),"unfired":uf.len(),"first_unfired":uf.first().cloned().unwrap_or_default()}));
                    if eg.total_number_of_nodes() > 60 { break; }
                }
                dump_events(&eg, &start, &root, &mut evs);
            } else if kind == "runner" {
                let mut runner: Runner<A, ConstFold, IterFp, String> = Runner::new(ConstFold).with_egraph(eg).with_expr(&start)
                    .with_iter_limit(iter_limit).with_node_limit(node_limit);
                if time_mode != "far" { runner = runner.with_time_limit(std::time::Duration::from_millis(time_limit_ms)); }
                if late_rules { late_rule_slots(&runner.egraph, late_seed); rws = rules2.iter().map(mk_rule).collect(); }
                // the hook fails at the chosen iteration, and also when the e-graph explodes
                // (a run-away saturation would otherwise make the recorder itself unbounded)
                let hook_log: Rc<RefCell<Vec<(bool, Instant, Instant)>>> = Rc::new(RefCell::new(Vec::new()));
                let hook_log2 = hook_log.clone();
                // what apply_rewrites did in this iteration is read off BEFORE the hook changes the e-graph itself
                let fp_log: Rc<RefCell<Vec<Vec<usize>>>> = Rc::new(RefCell::new(Vec::new()));
                let fp_log2 = fp_log.clone();
                let tracked_h = tracked.clone();
                runner = runner.with_hook(move |r| {
                    let t_in = Instant::now();
                    std::thread::sleep(hook_sleep);
                    if hook_mut {
                        fp_log2.borrow_mut().push(fingerprint(&r.egraph, &tracked_h));
                        let k = r.iterations.len();
                        r.egraph.add_expr(RecExpr::parse(&format!("{}", 1000 + k)).unwrap());
                    }
                    let mut l = hook_log2.borrow_mut();
                    let ok = Some(l.len()) != hook_fail_at && r.egraph.total_number_of_nodes() <= 80;
                    l.push((ok, t_in, Instant::now()));
                    if ok { Ok(()) } else { Err("hook".to_string()) }
                });
                let mut prev = fingerprint(&runner.egraph, &tracked);
                let t_call = Instant::now();
                let report = runner.run(&rws);
                let t_ret = Instant::now();
                let mut hook_failed = false;
                for (i, it) in runner.iterations.iter().enumerate() {
                    let hl = hook_log.borrow();
                    let hook_ok = hl.get(i).map(|x| x.0).unwrap_or(true);
                    if !hook_ok { hook_failed = true; }
                    let (lo, hi) = clock_bracket(&hl.iter().map(|x| (x.1, x.2)).collect::<Vec<_>>(), i, t_call, t_ret);
                    let fp_changed = match fp_log.borrow().get(i) { Some(f) if hook_mut => *f != prev, _ => it.data.fp != prev };
                    evs.push(json!({"ev":"iter","nodes":it.data.nodes,"num_nodes_field":it.num_nodes,"fp_changed":fp_changed,"hook_ok":hook_ok,"stop":it.data.stop,"lo_ms":lo,"hi_ms":hi}));
                    prev = it.data.fp.clone();
                }
                let reason = reason_name(&report.stop_reason);
                let actual = runner.egraph.total_number_of_nodes();
                let (mut again, mut meq) = (false, true);
                if reason == "saturated" {
                    meq = matches_equal(&runner.egraph, &rules2);
                    let b = fingerprint(&runner.egraph, &tracked);
                    apply_rewrites(&mut runner.egraph, &rws);
                    again = fingerprint(&runner.egraph, &tracked) != b;
                }
                evs.push(json!({"ev":"stop","reason":reason,"iterations":report.iterations,"report_nodes":report.egraph_nodes,"actual_nodes":actual,
                                "again_fp_changed":again,"matches_equal":meq,"hook_failed":hook_failed,"total_hi_ms":ceil_ms(t_ret - t_call)}));
                let root = runner.roots[0].clone();
                if runner.egraph.total_number_of_nodes() <= 200 { dump_events(&runner.egraph, &start, &root, &mut evs); }
            } else {
                let root = eg.add_expr(start.clone());
                if late_rules { late_rule_slots(&eg, late_seed); rws = rules2.iter().map(mk_rule).collect(); }
                let log: Rc<RefCell<Vec<(usize, Vec<usize>, bool, Instant, Instant)>>> = Rc::new(RefCell::new(Vec::new()));
                let log2 = log.clone();
                let tr = tracked.clone();
                let first = fingerprint(&eg, &tracked);
                let t_call = Instant::now();
                let report = run_eqsat(&mut eg, rws, iter_limit, (time_limit_ms / 1000) as usize, move |g: &mut EGraph<A, ConstFold>| {
                    let t_in = Instant::now();
                    std::thread::sleep(hook_sleep);
                    let mut l = log2.borrow_mut();
                    let big = g.total_number_of_nodes() > 80;
                    let ok = Some(l.len()) != hook_fail_at && !big;
                    let fp = if big { vec![g.total_number_of_nodes()] } else { fingerprint(g, &tr) };
                    l.push((g.total_number_of_nodes(), fp, ok, t_in, Instant::now()));
                    if l.last().unwrap().2 { Ok(()) } else { Err("hook".to_string()) }
                });
                let t_ret = Instant::now();
                let reason = reason_name(&report.stop_reason);
                let l = log.borrow();
                let mut prev = first;
                let mut hook_failed = false;
                let stamps: Vec<(Instant, Instant)> = l.iter().map(|x| (x.3, x.4)).collect();
                for (i, (n, fp, ok, _, _)) in l.iter().enumerate() {
                    let last = i + 1 == l.len();
                    let hook_ok = *ok;
                    if !hook_ok { hook_failed = true; }
                    let (lo, hi) = clock_bracket(&stamps, i, t_call, t_ret);
                    evs.push(json!({"ev":"iter","nodes":n,"num_nodes_field":n,"fp_changed":fp != &prev,"hook_ok":hook_ok,"stop": if last { reason } else { "none" },"lo_ms":lo,"hi_ms":hi}));
                    prev = fp.clone();
                }
                let actual = eg.total_number_of_nodes();
                let (mut again, mut meq) = (false, true);
                let rws2: Vec<Rewrite<A, ConstFold>> = rules2.iter().map(mk_rule).collect();
                if reason == "saturated" {
                    meq = matches_equal(&eg, &rules2);
                    let b = fingerprint(&eg, &tracked);
                    apply_rewrites(&mut eg, &rws2);
                    again = fingerprint(&eg, &tracked) != b;
                }
                evs.push(json!({"ev":"stop","reason":reason,"iterations":report.iterations,"report_nodes":report.egraph_nodes,"actual_nodes":actual,
                                "again_fp_changed":again,"matches_equal":meq,"hook_failed":hook_failed,"total_hi_ms":ceil_ms(t_ret - t_call)}));
                if eg.total_number_of_nodes() <= 200 { dump_events(&eg, &start, &root, &mut evs); }
            }
            evs
        }); let _ = tx_res.send(r); });
        // Saturation with rules that create ever larger symmetric classes (mul0-var with comm/assoc)
        // makes the library enumerate astronomically many group variants: such a run is slow, not
        // wrong.  It is abandoned after the limit (its thread is left behind) and counted.
        let res = match rx_res.recv_timeout(std::time::Duration::from_secs(env_u64("VERIF_RW_RUN_LIMIT", 45))) {
            Ok(r) => r,
            Err(_) => { abandoned += 1; if abandoned > 6 { break; } continue; }
        };
        match res {
            Ok(evs) => { completed += 1; for e in evs { writeln!(out, "{e}").unwrap(); nev += 1; } }
            Err(p) => {
                panics += 1;
                findings.push(json!({"kind":"finding","prop":"C08","what":"panic during rewriting / extraction","site":p.site,
                    "detail":{"msg":p.msg,"start":start_txt,"rules":rule_names,"kind":kind,"iter_limit":iter_limit,"node_limit":node_limit,"extraction_subst":extraction_subst}}));
            }
        }
    }
    for f in &findings { println!("{f}"); }
    println!("{}", json!({"kind":"summary","runs":completed,"runs_requested":runs + runs / 10,"events":nev,"panics":panics,"p":rf.p,"runs_abandoned_as_too_slow":abandoned}));
    out.flush().unwrap();
    std::process::exit(0);      // abandoned runs may still be computing
}
