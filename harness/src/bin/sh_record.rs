//! C16: record what the derived Language impl of T says about every enumerated e-node
//! (shape, bijection, occurrence lists, slots, syntax round trip); judged by TraceShape.tla.
//! usage: sh_record <nodes.json> <out.ndjson>

use serde::{Deserialize, Serialize};
use serde_json::json;
use slotted_egraphs::*;
use std::collections::BTreeMap;
use std::io::Write;
use verif_harness::langs::{S1, T};
use verif_harness::term::*;
use verif_harness::util::*;

#[derive(Deserialize, Serialize, Clone, Debug)]
struct NChild { bd: Vec<u32>, id: usize, args: Vec<u32> }
#[derive(Deserialize, Serialize, Clone, Debug)]
struct Node { op: String, sl: Vec<u32>, ch: Vec<NChild>, #[serde(default)] ps: Vec<u32> }
#[derive(Deserialize)]
struct Input { names: Vec<u32>, nodes: Vec<Node> }

fn param(j: usize) -> Slot { Slot::numeric(500 + j as u32) }

fn build(n: &Node, nm: &Naming) -> T {
    let mut elems = vec![SyntaxElem::String(n.op.clone())];
    for x in &n.sl { elems.push(SyntaxElem::Slot(nm.slot(*x))); }
    for c in &n.ch {
        for x in &c.bd { elems.push(SyntaxElem::Slot(nm.slot(*x))); }
        let m: SlotMap = c.args.iter().enumerate().map(|(j, a)| (param(j), nm.slot(*a))).collect();
        elems.push(SyntaxElem::AppliedId(AppliedId::new(Id(c.id), m)));
    }
    for x in &n.ps { elems.push(SyntaxElem::Slot(nm.slot(*x))); }
    T::from_syntax(&elems).expect("from_syntax")
}

/// name of a slot: user names through the naming, shape slots $k as 1000+k, others 2000+
fn nameof(s: Slot, nm: &Naming, extra: &mut BTreeMap<Slot, u32>) -> u32 {
    if let Some(k) = nm.name(s) { return k; }
    for k in 0..64 { if Slot::numeric(k) == s { return 1000 + k; } }
    let n = extra.len() as u32;
    *extra.entry(s).or_insert(2000 + n)
}

/// back to the abstract node, using the layout of `like`
fn abstract_node(l: &T, like: &Node, nm: &Naming) -> Node {
    let mut extra = BTreeMap::new();
    let syn = l.to_syntax();
    let mut it = syn.into_iter();
    let op = match it.next() { Some(SyntaxElem::String(s)) => s, _ => "?".into() };
    let mut sl = Vec::new();
    for _ in 0..like.sl.len() {
        if let Some(SyntaxElem::Slot(s)) = it.next() { sl.push(nameof(s, nm, &mut extra)); }
    }
    let mut ch = Vec::new();
    for c in &like.ch {
        let mut bd = Vec::new();
        for _ in 0..c.bd.len() {
            if let Some(SyntaxElem::Slot(s)) = it.next() { bd.push(nameof(s, nm, &mut extra)); }
        }
        if let Some(SyntaxElem::AppliedId(a)) = it.next() {
            let args: Vec<u32> = a.m.iter().map(|(_, v)| nameof(v, nm, &mut extra)).collect();
            ch.push(NChild { bd, id: a.id.0, args });
        }
    }
    let mut ps = Vec::new();
    for _ in 0..like.ps.len() {
        if let Some(SyntaxElem::Slot(s)) = it.next() { ps.push(nameof(s, nm, &mut extra)); }
    }
    Node { op, sl, ch, ps }
}

fn main() {
    let args: Vec<String> = std::env::args().collect();
    let input: Input = serde_json::from_str(&std::fs::read_to_string(&args[1]).unwrap()).unwrap();
    let mut out = std::io::BufWriter::new(std::fs::File::create(&args[2]).unwrap());
    install_hook();
    let maxn = *input.names.iter().max().unwrap();
    let nm2 = Naming::new("txt-rev", maxn + 4);
    let mut panics = 0;
    // every node under textual names and under the numeric names $0.. that shapes themselves use
    for (pass, kind) in ["txt-fwd", "num0"].iter().enumerate() {
    let nm = Naming::new(kind, maxn + 4);
    for (i0, n) in input.nodes.iter().enumerate() {
        let i = pass * input.nodes.len() + i0;
        let r = guard(|| {
            let l = build(n, &nm);
            let mut ex = BTreeMap::new();
            let names = |v: Vec<Slot>, ex: &mut BTreeMap<Slot, u32>| -> Vec<u32> { v.into_iter().map(|s| nameof(s, &nm, ex)).collect() };
            let all = names(l.all_slot_occurrences(), &mut ex);
            let pb = names(l.public_slot_occurrences(), &mut ex);
            let pv = names(l.private_slot_occurrences(), &mut ex);
            let mut lm = l.clone();
            let all_mut: Vec<Slot> = lm.all_slot_occurrences_mut().into_iter().map(|s| *s).collect();
            let mut lm2 = l.clone();
            let pub_mut: Vec<Slot> = lm2.public_slot_occurrences_mut().into_iter().map(|s| *s).collect();
            let mut lm3 = l.clone();
            let priv_mut_slots: Vec<Slot> = lm3.private_slot_occurrences_mut().into_iter().map(|s| *s).collect();
            let priv_mut = names(priv_mut_slots, &mut ex);
            let refreshed = l.refresh_private();
            let mut slots: Vec<u32> = l.slots().iter().map(|s| nameof(*s, &nm, &mut ex)).collect();
            slots.sort();
            let (sh, bij) = l.weak_shape();
            // Language::apply_slotmap has a documented precondition (asserted in the checks build): the target slots
            // must not collide with the node's private slots.  Under the numeric names $0.. a free slot of the node
            // can be named like a binder of the shape; then the shape's binders are refreshed first.
            let prv: Vec<Slot> = sh.private_slot_occurrences();
            let collide = bij.iter().any(|(_, v)| prv.contains(&v));
            let back = if collide { sh.refresh_private().apply_slotmap(&bij) } else { sh.apply_slotmap(&bij) };
            let (sh2, _) = sh.weak_shape();
            // the same node under another naming and with names rotated: shape must not change
            let rot = |k: u32| (k % maxn) + 1;
            let n_rot = Node { op: n.op.clone(), sl: n.sl.iter().map(|x| rot(*x)).collect(),
                ch: n.ch.iter().map(|c| NChild { bd: c.bd.iter().map(|x| rot(*x)).collect(), id: c.id, args: c.args.iter().map(|x| rot(*x)).collect() }).collect(),
                ps: n.ps.iter().map(|x| rot(*x)).collect() };
            let (sh_rot, _) = build(&n_rot, &nm2).weak_shape();
            let syn_ok = T::from_syntax(&l.to_syntax()).map(|x| x == l).unwrap_or(false);
            let mut bijp: Vec<(u32, u32)> = bij.iter().map(|(k, v)| (nameof(k, &nm, &mut ex), nameof(v, &nm, &mut ex))).collect();
            bijp.sort();
            json!({"i": i, "node": n, "shape_key": format!("{sh:?}"), "shape": abstract_node(&sh, n, &nm), "bij": bijp,
                   "back": abstract_node(&back, n, &nm), "all": all, "pub": pb, "priv": pv, "priv_mut": priv_mut,
                   "refreshed": abstract_node(&refreshed, n, &nm), "refreshed_slots_same": refreshed.slots() == l.slots() && refreshed.weak_shape().0 == sh,
                   "mut_same": all_mut == l.all_slot_occurrences() && pub_mut == l.public_slot_occurrences(),
                   "slots": slots, "shape_idem": sh2 == sh, "rot_same": sh_rot == sh, "syntax_ok": syn_ok, "panic": false,
                   "nchildren_ok": l.applied_id_occurrences().len() == n.ch.len()})
        });
        match r {
            Ok(v) => writeln!(out, "{v}").unwrap(),
            Err(p) => { panics += 1; writeln!(out, "{}", json!({"i": i, "node": n, "panic": true, "msg": p.msg, "site": p.site})).unwrap(); }
        }
    }
    }
    // payload values (language S1): what to_syntax prints, from_syntax reads back as the same node - also for symbols that
    // are spelled like odd numerals, signs, keywords of other payload types
    let mut k = 2 * input.nodes.len();
    let syms = ["a", "foo", "x1", "007", "+5", "-01", "00", "01x", "0", "7", "-7", "+", "-", "0x", "1_000", "true", "false", "'a'", "1.5", "1e3", "\u{e9}",
                // symbols spelled like an OPERATOR of the language that takes arguments (D26): a bare `tag` is not a `tag` node
                "const", "tag", "i", "chr"];
    let mut pl: Vec<(String, S1)> = Vec::new();
    for sy in syms {
        pl.push((format!("Sym:{sy}"), S1::Sym(Symbol::from(sy))));
        pl.push((format!("Const:{sy}"), S1::Const(Symbol::from(sy))));
        pl.push((format!("Tag:{sy}"), S1::Tag(Symbol::from(sy), AppliedId::null())));
    }
    for v in [0i64, 7, -7, i64::MAX, i64::MIN] { pl.push((format!("I:{v}"), S1::I(v))); }
    for v in [0u8, 7, 255] { pl.push((format!("U:{v}"), S1::U(v))); }
    for v in [true, false] { pl.push((format!("Bo:{v}"), S1::Bo(v))); }
    for v in ['a', '0', '+', '\u{e9}'] { pl.push((format!("Chr:{v}"), S1::Chr(v))); }
    let npl = pl.len();
    for (name, n) in pl {
        // (an unnamed symbol that spells an operator of the language is ambiguous by design and left out)
        let r = guard(|| S1::from_syntax(&n.to_syntax()).map(|x| x == n).unwrap_or(false));
        match r {
            Ok(ok) => writeln!(out, "{}", json!({"i": k, "payload": name, "panic": false, "syntax_ok": ok})).unwrap(),
            Err(p) => { panics += 1; writeln!(out, "{}", json!({"i": k, "payload": name, "panic": true, "syntax_ok": false, "msg": p.msg, "site": p.site})).unwrap(); }
        }
        k += 1;
    }
    println!("{}", json!({"kind":"summary","nodes":2 * input.nodes.len(),"payload_values":npl,"panics":panics}));
}
