//! C19 direction B: record random long SlotMap operation sequences (alphabet 12-16 slots,
//! beyond the inline capacity of ten) as an ndjson trace for TraceSlotMap.tla.
//! usage: sm_record <out.ndjson> <runs> <len>

use rand::prelude::*;
use serde_json::json;
use slotted_egraphs::*;
use std::collections::hash_map::DefaultHasher;
use std::hash::{Hash, Hasher};
use std::io::Write;
use verif_harness::util::*;

thread_local! { static SLOTS: std::cell::RefCell<Vec<Slot>> = std::cell::RefCell::new(Vec::new()); }
fn sl(k: u32) -> Slot {
    SLOTS.with(|t| {
        let mut t = t.borrow_mut();
        if t.is_empty() {
            let kinds = std::env::var("VERIF_SM_KINDS").unwrap_or_default();
            if kinds.starts_with("mixed") {
                let nm = verif_harness::term::Naming::new(&kinds, 64);
                *t = (1..=64).map(|i| nm.slot(i)).collect();
            } else {
                *t = (0..64).map(Slot::numeric).collect();
            }
        }
        t[k as usize]
    })
}
fn back(s: Slot) -> Option<u32> { (0..64).find(|k| sl(*k) == s) }
fn pairs_of(m: &SlotMap) -> Vec<(u32, u32)> {
    let mut v: Vec<(u32, u32)> = m.iter().map(|(a, b)| (back(a).unwrap_or(9999), back(b).unwrap_or(9999))).collect();
    v.sort();
    v
}
fn h(m: &SlotMap) -> u64 { let mut s = DefaultHasher::new(); m.hash(&mut s); s.finish() }

fn main() {
    let args: Vec<String> = std::env::args().collect();
    let mut out = std::io::BufWriter::new(std::fs::File::create(&args[1]).unwrap());
    let runs: usize = args[2].parse().unwrap();
    let len: usize = args[3].parse().unwrap();
    let seed = env_u64("VERIF_SEED", 0);
    let mut rng = StdRng::seed_from_u64(seed ^ 0x5107);
    install_hook();
    let mut events = 0;
    for _ in 0..runs {
        let alpha: u32 = rng.gen_range(12..=16);
        writeln!(out, "{}", json!({"op":"reset"})).unwrap();
        let mut m = SlotMap::new();
        for _ in 0..len {
            let c = rng.gen_range(0..11);
            let ev = if c < 5 {
                let (k, v) = (rng.gen_range(1..=alpha), rng.gen_range(1..=alpha));
                m.insert(sl(k), sl(v));
                json!({"op":"insert","k":k,"v":v,"pairs":pairs_of(&m)})
            } else if c < 7 {
                let k = rng.gen_range(1..=alpha);
                m.remove(sl(k));
                json!({"op":"remove","k":k,"pairs":pairs_of(&m)})
            } else if c == 10 {
                // build the same pair set from a shuffled listing (from_pairs / collect)
                let mut order: Vec<(Slot, Slot)> = m.iter().collect();
                order.shuffle(&mut rng);
                let built = if rng.gen_bool(0.5) { SlotMap::from_pairs(&order) } else { order.iter().copied().collect::<SlotMap>() };
                let gets: Vec<(u32, Vec<u32>)> = (1..=alpha).map(|k| (k, built.get(sl(k)).and_then(back).into_iter().collect())).collect();
                let inv_inv = if built.is_bijection() { built.inverse().inverse() == built && built.inverse().inverse() == m } else { true };
                json!({"op":"build","order":order.iter().map(|(a, b)| (back(*a).unwrap(), back(*b).unwrap())).collect::<Vec<_>>(),
                       "pairs":pairs_of(&built),"len":built.len(),"eq": built == m && m == built, "hash": h(&built) == h(&m),
                       "cmp_equal": built.cmp(&m) == std::cmp::Ordering::Equal && built.keys_vec() == m.keys_vec() && built.values_vec() == m.values_vec(),
                       "inv_inv": inv_inv, "gets": gets})
            } else if c < 9 {
                let canon = SlotMap::from_pairs(&m.iter().collect::<Vec<_>>());
                let mut keys: Vec<u32> = m.keys().iter().filter_map(|s| back(*s)).collect(); keys.sort();
                let mut vals: Vec<u32> = m.values().iter().filter_map(|s| back(*s)).collect(); vals.sort();
                let bij = m.is_bijection();
                // a non-injective map: the default build accepts it (the checks build asserts the precondition); the result
                // must still be a finite map (SlotMap.tla: IsSection) that equals the map rebuilt from its own pairs
                let inv_taken = bij || !cfg!(feature = "checks");
                let invm = if inv_taken { m.inverse() } else { SlotMap::new() };
                let inv = if inv_taken { pairs_of(&invm) } else { vec![] };
                let inv_wf = { let re = SlotMap::from_pairs(&invm.iter().collect::<Vec<_>>()); re == invm && h(&re) == h(&invm) && re.len() == invm.len() && invm.keys().len() == invm.len() };
                let gets: Vec<(u32, Vec<u32>)> = (0..4).map(|_| { let k = rng.gen_range(1..=alpha); (k, m.get(sl(k)).and_then(back).into_iter().collect()) }).collect();
                json!({"op":"read","len":m.len(),"keys":keys,"values":vals,"bij":bij,"perm":m.is_perm(),"inv":inv,"inv_taken":inv_taken,"inv_wf":inv_wf,
                       "eq_canon": m == canon, "hash_canon": h(&m) == h(&canon), "cmp_canon_equal": m.cmp(&canon) == std::cmp::Ordering::Equal,
                       "gets": gets})
            } else {
                let mut b = SlotMap::new();
                for _ in 0..rng.gen_range(0..=alpha) { b.insert(sl(rng.gen_range(1..=alpha)), sl(rng.gen_range(1..=alpha))); }
                let cf = m.compose_fresh(&b);
                let mut fresh_keys = Vec::new();
                let mut fresh_vals = Vec::new();
                let mut fresh_new = cf.keys() == m.keys();
                for (k, v) in cf.iter() {
                    let expect = m.get(k).and_then(|y| b.get(y));
                    match expect {
                        Some(z) => { if z != v { fresh_new = false; } }
                        None => {
                            fresh_keys.push(back(k).unwrap());
                            if back(v).is_some() || fresh_vals.contains(&v) { fresh_new = false; }
                            fresh_vals.push(v);
                        }
                    }
                }
                fresh_keys.sort();
                let tu = m.try_union(&b);
                json!({"op":"bin","b":pairs_of(&b),"cp":pairs_of(&m.compose_partial(&b)),"cp_rev":pairs_of(&b.compose_partial(&m)),
                       "fresh_keys":fresh_keys,"fresh_new":fresh_new,"compat":tu.is_some(),"un":tu.map(|u| pairs_of(&u)).unwrap_or_default()})
            };
            writeln!(out, "{}", ev).unwrap();
            events += 1;
        }
    }
    println!("{}", json!({"kind":"summary","events":events,"runs":runs}));
}
