//! C19: SlotMap against the SlotMap.tla transition table.
//! usage: sm_replay <table.json> <maxlen>
//! table.json = {"S":[..], "states":[SMSTATE..], "bin":[[BinRow..]..]}
//! Walks ALL operation sequences (insert/remove) up to <maxlen> from the empty map on the real
//! SlotMap, compares with the specification's successor after every step, checks equality /
//! hash / ordering against a canonically built map, all unary reads per distinct state, and
//! the exhaustive binary-operation table.

use serde::Deserialize;
use serde_json::json;
use slotted_egraphs::*;
use std::collections::hash_map::DefaultHasher;
use std::collections::{BTreeMap, HashMap};
use std::hash::{Hash, Hasher};
use verif_harness::util::*;

type Pairs = Vec<(u32, u32)>;

#[derive(Deserialize)]
struct Reads {
    pairs: Pairs,
    len: usize,
    keys: Vec<u32>,
    values: Vec<u32>,
    bij: bool,
    perm: bool,
    inv: Pairs,
    get: Vec<Vec<u32>>,
}
#[derive(Deserialize)]
struct State {
    st: Reads,
    ins: Vec<Vec<Pairs>>,
    rem: Vec<Pairs>,
}
#[derive(Deserialize)]
struct BinRow {
    a: Pairs,
    b: Pairs,
    cp: Pairs,
    cdef: bool,
    fresh: Vec<u32>,
    compat: bool,
    un: Pairs,
}
#[derive(Deserialize)]
struct Table {
    #[serde(rename = "S")]
    s: Vec<u32>,
    states: Vec<State>,
    bin: Vec<Vec<BinRow>>,
}

thread_local! { static SLOTS: std::cell::RefCell<Vec<Slot>> = std::cell::RefCell::new(Vec::new()); }
/// the concrete slot of model slot k: numeric, or (VERIF_SM_KINDS=mixed) a mixture of textual,
/// numeric and `$f<n>` names whose order interleaves (term.rs: naming mixed-a / mixed-b)
fn sl(k: u32) -> Slot {
    SLOTS.with(|t| {
        let mut t = t.borrow_mut();
        if t.is_empty() {
            let kinds = std::env::var("VERIF_SM_KINDS").unwrap_or_default();
            if kinds.starts_with("mixed") {
                let nm = verif_harness::term::Naming::new(&kinds, 64);
                *t = (1..=64).map(|i| nm.slot(i)).collect();
            } else {
                *t = (0..64).map(Slot::numeric).collect();
            }
        }
        t[k as usize]
    })
}
fn canon(p: &Pairs) -> SlotMap {
    let v: Vec<(Slot, Slot)> = p.iter().map(|(a, b)| (sl(*a), sl(*b))).collect();
    SlotMap::from_pairs(&v)
}
fn pairs_of(m: &SlotMap) -> Pairs {
    let back = |s: Slot| -> u32 {
        for k in 0..64 {
            if sl(k) == s {
                return k;
            }
        }
        9999
    };
    let mut v: Pairs = m.iter().map(|(a, b)| (back(a), back(b))).collect();
    v.sort();
    v
}
fn h(m: &SlotMap) -> u64 {
    let mut s = DefaultHasher::new();
    m.hash(&mut s);
    s.finish()
}

struct Walk<'a> {
    t: &'a Table,
    idx: &'a HashMap<Pairs, usize>,
    canon: Vec<SlotMap>,
    probes: Vec<SlotMap>,
    maxlen: usize,
    steps: u64,
    paths: u64,
    findings: Vec<serde_json::Value>,
}

impl<'a> Walk<'a> {
    fn bad(&mut self, what: &str, path: &[String], detail: serde_json::Value) {
        if self.findings.len() < 50 {
            self.findings.push(json!({"kind":"finding","prop":"C19","what":what,"site":"","path":path,"detail":detail}));
        }
    }
    fn go(&mut self, real: &SlotMap, si: usize, path: &mut Vec<String>) {
        if path.len() == self.maxlen {
            self.paths += 1;
            return;
        }
        let n = self.t.s.len();
        for ki in 0..n {
            for vi in 0..=n {
                // vi == n encodes remove(k)
                let k = self.t.s[ki];
                let (want, opname) = if vi == n {
                    (&self.t.states[si].rem[ki], format!("remove({k})"))
                } else {
                    (&self.t.states[si].ins[ki][vi], format!("insert({k},{})", self.t.s[vi]))
                };
                let mut next = real.clone();
                if vi == n {
                    next.remove(sl(k));
                } else {
                    next.insert(sl(k), sl(self.t.s[vi]));
                }
                self.steps += 1;
                path.push(opname);
                let got = pairs_of(&next);
                if &got != want {
                    self.bad("state after operation differs from the reference map", path, json!({"got": got, "want": want}));
                    path.pop();
                    continue;
                }
                // iteration order is by key (documented: "ordered by their keys")
                let raw: Vec<(Slot, Slot)> = next.iter().collect();
                if raw.windows(2).any(|w| w[0].0 >= w[1].0) {
                    self.bad("iter() not strictly ordered by key", path, json!({"got": got}));
                }
                let ni = self.idx[want];
                let c = self.canon[ni].clone();
                let c = &c;
                if &next != c || c != &next {
                    self.bad("equality depends on construction path", path, json!({"pairs": got}));
                }
                if h(&next) != h(c) {
                    self.bad("hash depends on construction path", path, json!({"pairs": got}));
                }
                if next.cmp(c) != std::cmp::Ordering::Equal {
                    self.bad("ordering depends on construction path", path, json!({"pairs": got}));
                }
                for p in 0..self.probes.len() {
                    let pr = self.probes[p].clone();
                    let pr = &pr;
                    if next.cmp(pr) != c.cmp(pr) || pr.cmp(&next) != pr.cmp(c) {
                        self.bad("ordering against another map depends on construction path", path, json!({"pairs": got}));
                        break;
                    }
                }
                self.go(&next, ni, path);
                path.pop();
            }
        }
    }
}

fn main() {
    // a panic outside the per-operation guards (building the canonical maps, the order and
    // associativity laws) is still data about SlotMap, not a failure of this tool
    if let Err(p) = guard(real_main) {
        println!("{}", json!({"kind":"finding","prop":"C19","what":"panic in a SlotMap operation","site":p.site,"detail":{"msg":p.msg}}));
        println!("{}", json!({"kind":"summary","states":0,"reads":0,"order_pairs":0,"binary_rows":0,"assoc_triples":0,"paths":0,"steps":0,"maxlen":0,"findings":1}));
    }
}

fn real_main() {
    let args: Vec<String> = std::env::args().collect();
    let t: Table = serde_json::from_str(&std::fs::read_to_string(&args[1]).unwrap()).unwrap();
    let maxlen: usize = args[2].parse().unwrap();
    install_hook();
    let mut idx: HashMap<Pairs, usize> = HashMap::new();
    for (i, s) in t.states.iter().enumerate() {
        idx.insert(s.st.pairs.clone(), i);
    }
    let canon_maps: Vec<SlotMap> = t.states.iter().map(|s| canon(&s.st.pairs)).collect();
    let mut findings: Vec<serde_json::Value> = Vec::new();
    let mut bad = |what: &str, detail: serde_json::Value| {
        if findings.len() < 50 {
            findings.push(json!({"kind":"finding","prop":"C19","what":what,"site":"","detail":detail}));
        }
    };

    // ---- unary reads per distinct state -----------------------------------------------------
    let mut reads = 0u64;
    for (i, s) in t.states.iter().enumerate() {
        let m = &canon_maps[i];
        let r = guard(|| {
            let mut errs: Vec<String> = Vec::new();
            if m.len() != s.st.len { errs.push("len".into()); }
            if m.is_empty() != (s.st.len == 0) { errs.push("is_empty".into()); }
            let keys: Vec<u32> = { let mut v: Vec<u32> = pairs_of(&SlotMap::identity(&m.keys())).iter().map(|p| p.0).collect(); v.sort(); v };
            if keys != s.st.keys { errs.push("keys/identity".into()); }
            let mut kv: Vec<Slot> = m.keys_vec(); kv.sort();
            let mut want_kv: Vec<Slot> = s.st.keys.iter().map(|k| sl(*k)).collect(); want_kv.sort();
            if kv != want_kv { errs.push("keys_vec".into()); }
            let mut vals: Vec<Slot> = m.values().iter().copied().collect(); vals.sort();
            let mut want_vals: Vec<Slot> = s.st.values.iter().map(|k| sl(*k)).collect(); want_vals.sort();
            if vals != want_vals { errs.push("values".into()); }
            let mut vv: Vec<Slot> = m.values_vec(); vv.sort(); vv.dedup();
            if vv != want_vals { errs.push("values_vec".into()); }
            let vi: Vec<Slot> = m.values_immut().copied().collect();
            if vi != m.values_vec() { errs.push("values_immut".into()); }
            if m.is_bijection() != s.st.bij { errs.push("is_bijection".into()); }
            if m.is_perm() != s.st.perm { errs.push("is_perm".into()); }
            for (ki, k) in t.s.iter().enumerate() {
                let g = m.get(sl(*k));
                let want = s.st.get[ki].first().map(|v| sl(*v));
                if g != want { errs.push(format!("get({k})")); }
                if m.contains_key(sl(*k)) != want.is_some() { errs.push(format!("contains_key({k})")); }
                if let Some(w) = want { if m[sl(*k)] != w { errs.push(format!("index({k})")); } }
            }
            if s.st.bij {
                let inv = m.inverse();
                if pairs_of(&inv) != s.st.inv { errs.push("inverse".into()); }
                if inv.inverse() != *m { errs.push("inverse(inverse)".into()); }
                if m.compose(&inv) != SlotMap::identity(&m.keys()) { errs.push("compose with inverse".into()); }
            }
            if !s.st.bij && !cfg!(feature = "checks") {
                // SlotMap.tla IsSection: inverse() of a non-injective map is again a finite map, one entry per value
                let inv = m.inverse();
                let ps = pairs_of(&inv);
                let mut ks: Vec<u32> = ps.iter().map(|p| p.0).collect(); ks.sort(); let n = ks.len(); ks.dedup();
                let re: SlotMap = SlotMap::from_pairs(&inv.iter().collect::<Vec<_>>());
                let ok = n == ks.len() && ks == { let mut v = s.st.values.clone(); v.sort(); v.dedup(); v }
                    && ps.iter().all(|(y, x)| m.get(sl(*x)) == Some(sl(*y)))
                    && re == inv && h(&re) == h(&inv) && inv.len() == ks.len() && inv.keys().len() == inv.len();
                if !ok { errs.push("inverse of a non-injective map is not a finite map / section".into()); }
            }
            let it: SlotMap = m.clone().into_iter().collect();
            if &it != m { errs.push("into_iter/from_iter".into()); }
            // construction from every listing order of the pairs (SlotMap.tla: LawFromSeq)
            let ps: Vec<(Slot, Slot)> = s.st.pairs.iter().map(|(a, b)| (sl(*a), sl(*b))).collect();
            for perm in verif_harness::term::perms(ps.len()) {
                let listing: Vec<(Slot, Slot)> = perm.iter().map(|i| ps[*i]).collect();
                let mut built: Vec<(&str, SlotMap)> = vec![("from_pairs", SlotMap::from_pairs(&listing)), ("collect", listing.iter().copied().collect())];
                match listing.len() {
                    2 => built.push(("From<[_;2]>", SlotMap::from([listing[0], listing[1]]))),
                    3 => built.push(("From<[_;3]>", SlotMap::from([listing[0], listing[1], listing[2]]))),
                    4 => built.push(("From<[_;4]>", SlotMap::from([listing[0], listing[1], listing[2], listing[3]]))),
                    _ => {}
                }
                for (how, b) in built {
                    let ok = &b == m && h(&b) == h(m) && b.cmp(m) == std::cmp::Ordering::Equal && b.len() == m.len()
                        && b.keys_vec() == m.keys_vec() && b.values_vec() == m.values_vec()
                        && ps.iter().all(|(k, v)| b.get(*k) == Some(*v))
                        && (!s.st.bij || b.inverse().inverse() == *m);
                    if !ok { errs.push(format!("construction order ({how})")); }
                }
            }
            let mut mm = m.clone();
            for v in mm.values_mut() { *v = *v; }
            if &mm != m { errs.push("values_mut".into()); }
            errs
        });
        reads += 1;
        match r {
            Ok(e) if e.is_empty() => {}
            Ok(e) => bad("read operation disagrees with the reference map", json!({"pairs": s.st.pairs, "ops": e})),
            Err(p) => bad("panic in a read operation", json!({"pairs": s.st.pairs, "msg": p.msg, "site": p.site})),
        }
    }

    // ---- order laws over all pairs of distinct states -------------------------------------------
    let mut order_pairs = 0u64;
    for i in 0..canon_maps.len() {
        for j in 0..canon_maps.len() {
            order_pairs += 1;
            let (a, b) = (&canon_maps[i], &canon_maps[j]);
            let c = a.cmp(b);
            if (c == std::cmp::Ordering::Equal) != (i == j) || c != b.cmp(a).reverse() || (a == b) != (i == j) {
                bad("ordering/equality is not consistent with the set of pairs", json!({"a": t.states[i].st.pairs, "b": t.states[j].st.pairs}));
            }
            if i != j && a.partial_cmp(b) != Some(c) {
                bad("partial_cmp disagrees with cmp", json!({}));
            }
        }
    }

    // ---- binary operations, exhaustive table -----------------------------------------------------
    let mut bins = 0u64;
    for row in t.bin.iter().flatten() {
        bins += 1;
        let (a, b) = (canon(&row.a), canon(&row.b));
        let r = guard(|| {
            let mut errs: Vec<String> = Vec::new();
            if pairs_of(&a.compose_partial(&b)) != row.cp { errs.push("compose_partial".into()); }
            if row.cdef && pairs_of(&a.compose(&b)) != row.cp { errs.push("compose".into()); }
            let cf = a.compose_fresh(&b);
            if cf.keys() != a.keys() { errs.push("compose_fresh keys".into()); }
            let mut fresh_seen: Vec<Slot> = Vec::new();
            for (k, v) in cf.iter() {
                let kk = pairs_of(&SlotMap::from_pairs(&[(k, k)]))[0].0;
                if row.fresh.contains(&kk) {
                    // must be a brand-new slot: not a user slot, pairwise distinct
                    if (0..64).any(|u| sl(u) == v) || fresh_seen.contains(&v) { errs.push(format!("compose_fresh fill-in for {kk} is not new")); }
                    fresh_seen.push(v);
                } else {
                    let want = row.cp.iter().find(|p| p.0 == kk).map(|p| sl(p.1));
                    if Some(v) != want { errs.push(format!("compose_fresh value for {kk}")); }
                }
            }
            match a.try_union(&b) {
                Some(u) => { if !row.compat || pairs_of(&u) != row.un { errs.push("try_union".into()); } }
                None => { if row.compat { errs.push("try_union returned None for compatible maps".into()); } }
            }
            if row.compat && pairs_of(&a.union(&b)) != row.un { errs.push("union".into()); }
            errs
        });
        match r {
            Ok(e) if e.is_empty() => {}
            Ok(e) => bad("binary operation disagrees with the reference map", json!({"a": row.a, "b": row.b, "ops": e})),
            Err(p) => bad("panic in a binary operation", json!({"a": row.a, "b": row.b, "msg": p.msg, "site": p.site})),
        }
    }
    // associativity on the real structure over triples of bijections of the binary table
    let bij_rows: Vec<SlotMap> = t.bin.iter().map(|r| canon(&r[0].a)).filter(|m| m.is_bijection()).collect();
    let mut triples = 0u64;
    for a in &bij_rows {
        for b in &bij_rows {
            let ab = a.compose_partial(b);
            for c in &bij_rows {
                triples += 1;
                if ab.compose_partial(c) != a.compose_partial(&b.compose_partial(c)) {
                    bad("composition is not associative", json!({"a": pairs_of(a), "b": pairs_of(b), "c": pairs_of(c)}));
                }
            }
        }
    }

    // ---- all operation sequences up to maxlen ------------------------------------------------------
    let probes: Vec<SlotMap> = (0..canon_maps.len()).step_by(37).map(|i| canon_maps[i].clone()).collect();
    let empty_idx = idx[&Vec::new()];
    let mut w = Walk { t: &t, idx: &idx, canon: canon_maps.clone(), probes, maxlen, steps: 0, paths: 0, findings: Vec::new() };
    let r = guard(|| {
        let mut path = Vec::new();
        w.go(&SlotMap::new(), empty_idx, &mut path);
    });
    if let Err(p) = r {
        w.findings.push(json!({"kind":"finding","prop":"C19","what":"panic in insert/remove","site":p.site,"detail":{"msg":p.msg}}));
    }
    let _ = BTreeMap::<u8, u8>::new();
    for f in findings.iter().chain(w.findings.iter()) {
        println!("{}", f);
    }
    println!("{}", json!({"kind":"summary","states": t.states.len(), "reads": reads, "order_pairs": order_pairs, "binary_rows": bins,
        "assoc_triples": triples, "paths": w.paths, "steps": w.steps, "maxlen": maxlen, "findings": findings.len() + w.findings.len()}));
}
