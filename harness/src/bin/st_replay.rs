//! C17: replay every behaviour of SlotTable.tla (TLC, all interleavings of fresh / numeric /
//! named up to the depth bound) in a FRESH THREAD each (fresh thread-local slot table) and
//! compare: the equality pattern among all slots ever returned, the printed name of every
//! slot after every call, and print->parse round trips.
//! usage: st_replay <behaviours.ndjson> <threads>

use serde::Deserialize;
use serde_json::json;
use slotted_egraphs::*;
use std::sync::atomic::{AtomicUsize, Ordering};
use std::sync::{Arc, Mutex};
use verif_harness::langs::T;
use verif_harness::util::*;

#[derive(Deserialize, Clone)]
struct Entry {
    op: String,
    arg: Vec<String>,
    res: (String, Vec<String>),
    name: Vec<String>,
}

fn run(beh: &[Entry], idx: usize) -> Option<serde_json::Value> {
    let mut slots: Vec<Slot> = Vec::new();
    let show = |b: &[Entry]| -> Vec<String> { b.iter().map(|e| format!("{}({})", e.op, e.arg.concat())).collect() };
    for (i, e) in beh.iter().enumerate() {
        let s = match e.op.as_str() {
            "fresh" => Slot::fresh(),
            "numeric" => Slot::numeric(e.arg.concat().parse().unwrap()),
            "named" => {
                let name = e.arg.concat();
                if (idx + i) % 2 == 0 {
                    Slot::named(&name)
                } else {
                    // through the tokenizer/parser
                    match RecExpr::<T>::parse(&format!("(v ${name})")) {
                        Ok(re) => match re.node {
                            T::V(s) => s,
                            _ => return Some(json!({"what":"parser returned a different node","calls":show(&beh[..=i])})),
                        },
                        Err(err) => return Some(json!({"what":"a slot name does not parse","calls":show(&beh[..=i]),"err":format!("{err:?}")})),
                    }
                }
            }
            _ => unreachable!(),
        };
        slots.push(s);
        for j in 0..i {
            let spec_eq = beh[j].res == e.res;
            let impl_eq = slots[j] == s;
            if spec_eq != impl_eq {
                let what = if e.op == "fresh" && impl_eq {
                    "Slot::fresh returned a slot that was obtained earlier"
                } else if impl_eq {
                    "distinct slot names denote the same slot"
                } else {
                    "the same slot name denotes different slots"
                };
                return Some(json!({"what":what,"calls":show(&beh[..=i]),"earlier_call":j,"printed":[slots[j].to_string(), s.to_string()]}));
            }
        }
        for j in 0..=i {
            let want = format!("${}", beh[j].name.concat());
            if slots[j].to_string() != want {
                return Some(json!({"what":"printed name differs from the name that was given","calls":show(&beh[..=i]),"call":j,"printed":slots[j].to_string(),"want":want}));
            }
        }
    }
    for (j, e) in beh.iter().enumerate() {
        let back = Slot::named(&e.name.concat());
        if back != slots[j] {
            return Some(json!({"what":"print then parse gives a different slot","calls":show(beh),"call":j}));
        }
    }
    None
}

fn main() {
    let args: Vec<String> = std::env::args().collect();
    let text = std::fs::read_to_string(&args[1]).unwrap();
    let behs: Arc<Vec<Vec<Entry>>> = Arc::new(text.lines().map(|l| serde_json::from_str(l).unwrap()).collect());
    let threads: usize = args[2].parse().unwrap();
    install_hook();
    let next = Arc::new(AtomicUsize::new(0));
    let findings = Arc::new(Mutex::new(Vec::new()));
    let mut hs = Vec::new();
    for _ in 0..threads {
        let (behs, next, findings) = (behs.clone(), next.clone(), findings.clone());
        hs.push(std::thread::spawn(move || loop {
            let i = next.fetch_add(1, Ordering::SeqCst);
            if i >= behs.len() {
                break;
            }
            let b = behs.clone();
            // fresh thread = fresh slot table
            let r = std::thread::spawn(move || guard(|| run(&b[i], i))).join().unwrap();
            let f = match r {
                Ok(None) => None,
                Ok(Some(mut v)) => { v["site"] = json!(""); Some(v) }
                Err(p) => Some(json!({"what":"panic in slot creation/printing","site":p.site,"msg":p.msg})),
            };
            if let Some(mut v) = f {
                v["kind"] = json!("finding");
                v["prop"] = json!("C17");
                v["behaviour"] = json!(i);
                findings.lock().unwrap().push(v);
            }
        }));
    }
    for h in hs {
        h.join().unwrap();
    }
    let f = findings.lock().unwrap();
    for x in f.iter().take(2000) {
        println!("{x}");
    }
    println!("{}", json!({"kind":"summary","behaviours":behs.len(),"findings":f.len()}));
}
