//! C20: execute ONE schedule of Threads.tla with real threads in THIS (fresh) process and print
//! the main thread's observable transcript (including EGraph::dump output) to stdout.
//! usage: th_replay <schedule>     schedule = string over {m,n}; "solo" = main thread only
//! The driver compares the stdout of all schedules byte for byte with the solo run.

use slotted_egraphs::*;
use std::sync::mpsc::{channel, Receiver, Sender};
use verif_harness::langs::T;

fn show_subst(s: &Subst) -> String {
    let mut v: Vec<(String, String)> = s.iter().map(|(k, v)| (k.clone(), format!("{v:?}"))).collect();
    v.sort();
    format!("{v:?}")
}

const F_TEXT: &str = "(lam $1 (h (v $1) (v $f500)))";
const TIE: [&str; 8] = ["tie_alpha", "tie_beta", "tie_gamma", "tie_delta", "tie_epsilon", "tie_zeta", "tie_eta", "tie_theta"];

/// the main history: 6 steps, one per operation of Threads.tla's MainProg
/// (sym a, egraph, sym b, fresh, egraph, named x)
fn main_step(k: usize, eg: &mut EGraph<T>, hs: &mut Vec<AppliedId>) {
    let add = |eg: &mut EGraph<T>, s: &str| eg.add_expr(RecExpr::parse(s).unwrap());
    match k {
        0 => {
            let a = add(eg, "(h alpha (g alpha))");
            println!("step0 {a:?}");
            hs.push(a);
        }
        1 => {
            let a = add(eg, "(h (f $x $y) alpha)");
            let b = add(eg, "(lam $x (h (f $x $y) (v $y)))");
            println!("step1 {a:?} {b:?} ids={:?}", eg.ids());
            hs.push(a);
            hs.push(b);
        }
        2 => {
            let a = add(eg, "(h beta (f $x $y))");
            let b = add(eg, "(h (g beta) (g alpha))");
            println!("step2 {a:?} {b:?}");
            hs.push(a);
            hs.push(b);
            // symbol constants of equal cost in ONE class (their own e-graph): which of them extraction returns, and the
            // order in which the class lists them, must be a function of this history alone - not of the order in which
            // the process-global symbol interner happened to see the names (another thread may have mentioned them first)
            let mut eg3: EGraph<T> = EGraph::default();
            let ids: Vec<AppliedId> = TIE.iter().map(|n| add(&mut eg3, n)).collect();
            for w in ids.windows(2) { eg3.union(&w[0], &w[1]); }
            let p = add(&mut eg3, &format!("(h {} {})", TIE[0], TIE[1]));
            let ex = Extractor::<T, AstSize>::new(&eg3, AstSize);
            println!("step2 tie_ extract {}", ex.extract(&p, &eg3));
            println!("step2 tie_ enodes {:?}", eg3.enodes(eg3.find_applied_id(&ids[0]).id));
        }
        3 => {
            let s = Slot::fresh();
            println!("step3 fresh={s}");
            // a slot named here for the first time next to a slot spelled `$f<n>`: how the two are ordered (and with it how the
            // returned invocation pairs them with the class's parameters) must not depend on how many names OTHER threads have
            // registered by now (seeded C20o: the table of spellings moved to a process-wide vector)
            let c = add(eg, "(h (v $zz) (v $f3))");
            let d = add(eg, "(f $f2 $zq)");
            println!("step3 mixed {c:?} {d:?}");
        }
        4 => {
            let (x, y) = (hs[1].clone(), hs[3].clone());
            let r = eg.union(&x, &y);
            println!("step4 union={r}");
            let a = add(eg, "(f $x $y)");
            let b = add(eg, "(f $y $x)");
            eg.union(&a, &b);
            let rws: Vec<Rewrite<T>> = vec![
                Rewrite::new("hcomm", "(h ?a ?b)", "(h ?b ?a)"),
                Rewrite::new("gg", "(h ?a (g ?a))", "(g ?a)"),
                Rewrite::new("lamh", "(lam $1 (h ?a (v $2)))", "(h (v $2) (lam $1 ?a))"),
            ];
            for i in 0..2 {
                let ch = apply_rewrites(eg, &rws);
                println!("step4 rewrite{i}={ch} nodes={} ids={:?}", eg.total_number_of_nodes(), eg.ids());
            }
            for p in ["(h ?a ?b)", "(g ?a)", "(h (f $1 $2) ?b)", "?a"] {
                let pat = Pattern::<T>::parse(p).unwrap();
                let ms: Vec<String> = ematch_all(eg, &pat).iter().map(show_subst).collect();
                println!("step4 matches {p}: {ms:?}");
            }
            let ex = Extractor::<T, AstSize>::new(eg, AstSize);
            for h in hs.iter() {
                println!("step4 extract {:?} -> {} cost {}", h, ex.extract(h, eg), ex.get_best_cost::<()>(&eg.find_applied_id(h)));
            }
            for h in hs.iter() {
                println!("step4 find {:?} enodes={:?}", eg.find_applied_id(h), { let mut v: Vec<String> = eg.enodes(eg.find_applied_id(h).id).iter().map(|n| format!("{n:?}")).collect(); v.sort(); v });
            }
            #[cfg(feature = "explanations")]
            {
                let p = eg.explain_equivalence(RecExpr::parse("(h alpha (f $x $y))").unwrap(), RecExpr::parse("(h (f $y $x) alpha)").unwrap());
                println!("step4 explanation:\n{}", p.to_string(eg));
            }
            eg.dump();
        }
        5 => {
            let s = Slot::named("xname");
            let t = Slot::fresh();
            println!("step5 named={s} fresh={t}");
            // a text with a slot of the internal form `$f<n>` (and no textual name): parsing it moves THIS thread's fresh
            // counter past n, whether or not another thread has parsed the same text before
            let w = add(eg, F_TEXT);
            println!("step5 {w:?} fresh={}", Slot::fresh());
            let a = add(eg, "(h (v $xname) gamma)");
            // an e-node that binds TWO different slots (Bind<Bind<_>>): which binder gets which fresh name is visible in
            // extracted terms and in dump()
            let d2 = add(eg, "(sum (v $xname) $p $q (h (f $p $q) (v $q)))");
            let d3 = add(eg, "(lam $o (sum (v $o) $p $q (h (f $q $p) (f $p $o))))");
            let ex5 = Extractor::<T, AstSize>::new(eg, AstSize);
            println!("step5 {d2:?} {d3:?} extract {} | {}", ex5.extract(&d2, eg), ex5.extract(&d3, eg));
            // an order-sensitive history in its own e-graph: a union that leaves FIVE e-nodes pending at once, later a union that
            // leaves three whose handling order decides which class survives (p = q through one operator, q = r through another,
            // sizes 3, 2, 2).  The order in which pending e-nodes are served must be a function of this history alone - not of
            // how many rebuilds other e-graphs of the process (the noise thread) have run meanwhile
            for (fa, hb) in [(0usize, 2usize), (2, 0), (0, 1), (1, 0), (0, 3), (3, 0), (1, 2), (2, 1), (1, 3), (3, 1), (2, 3), (3, 2)] {
                let eg5 = &mut EGraph::<T>::default();
                let un = |k: usize, x: &str| -> String { match k { 0 => format!("(g {x})"), 1 => format!("(h {x} c)"), 2 => format!("(h {x} d)"), _ => format!("(h c {x})") } };
                let c1 = add(eg5, "1"); let c2 = add(eg5, "2");
                for k in 0..4 { add(eg5, &un(k, "1")); add(eg5, &un(k, "2")); }
                eg5.union(&c1, &c2);
                let c = add(eg5, "10"); let d = add(eg5, "11");
                let p = add(eg5, &un(fa, "10")); let z1 = add(eg5, "20"); eg5.union(&p, &z1); let z3 = add(eg5, "22"); eg5.union(&p, &z3);
                let q = add(eg5, &un(fa, "11")); let q2 = add(eg5, &un(hb, "10")); eg5.union(&q, &q2);
                let r = add(eg5, &un(hb, "11")); let z2 = add(eg5, "21"); eg5.union(&r, &z2);
                eg5.union(&c, &d);
                println!("step5 order-sensitive {fa}{hb} ids={:?} p={:?} q={:?} r={:?} c={:?}", eg5.ids(), eg5.find_applied_id(&p), eg5.find_applied_id(&q), eg5.find_applied_id(&r), eg5.find_applied_id(&c));
                if (fa, hb) == (0, 2) { eg5.dump(); }
            }
            println!("step5 {a:?} progress={:?}", { let p = eg.progress(); (p.number_of_classes, p.number_of_live_classes, p.sum_of_slots, p.sum_of_symmetries) });
            eg.dump();
        }
        6 => {
            // saturation runs with a time limit that is far away (30 s): how long the machine
            // takes (here: a per-process delay in the hook, standing for load) must not show.
            let delay = std::time::Duration::from_millis(std::env::var("VERIF_TH_DELAY").ok().and_then(|x| x.parse().ok()).unwrap_or(0));
            let mk = || -> Vec<Rewrite<T>> { vec![Rewrite::new("grow", "(h ?a ?b)", "(h (g ?a) ?b)"), Rewrite::new("hcomm", "(h ?a ?b)", "(h ?b ?a)")] };
            let mut eg2: EGraph<T> = EGraph::default();
            eg2.add_expr(RecExpr::parse("(h (g alpha) (v $x))").unwrap());
            let rep = run_eqsat(&mut eg2, mk(), 4, 30, move |_| { std::thread::sleep(delay); Ok(()) });
            println!("step6 run_eqsat iterations={} stop={:?} nodes={} classes={} ids={:?}", rep.iterations, rep.stop_reason, rep.egraph_nodes, rep.egraph_classes, eg2.ids());
            let mut runner: Runner<T, (), (), String> = Runner::default().with_expr(&RecExpr::parse("(h (g beta) (v $y))").unwrap())
                .with_iter_limit(3).with_time_limit(std::time::Duration::from_secs(30)).with_hook(move |_| { std::thread::sleep(delay); Ok(()) });
            let rep = runner.run(&mk());
            println!("step6 runner iterations={} stop={:?} nodes={} classes={} ids={:?}", rep.iterations, rep.stop_reason, rep.egraph_nodes, rep.egraph_classes, runner.egraph.ids());
        }
        _ => {}
    }
}

/// unrelated work of the noise thread (sym z, fresh, sym b, egraph)
fn noise_step(k: usize, eg: &mut EGraph<T>) {
    match k {
        0 => {
            let _ = Symbol::from("zeta"); let _ = Symbol::from("omega"); eg.add_expr(RecExpr::parse("(h zeta (g omega))").unwrap());
            // (every add / union is a rebuild call of THIS thread's e-graph: 23, 9, 11, 17 of them in the four steps)
            for i in 0..23 { eg.add_expr(RecExpr::parse(&format!("(g {})", 3000 + i)).unwrap()); }
        }
        1 => {
            for _ in 0..5 { let _ = Slot::fresh(); }
            let _ = Slot::named("xname");
            let _ = Slot::named("other");
            for n in ["n1", "n2", "n3", "n4", "n5", "n6"] { let _ = Slot::named(n); }
            let _ = RecExpr::<T>::parse(F_TEXT);       // the same text the main thread parses later
            for i in 0..9 { eg.add_expr(RecExpr::parse(&format!("(g {})", 4000 + i)).unwrap()); }
        }
        2 => {
            let _ = Symbol::from("beta"); let _ = Symbol::from("gamma"); eg.add_expr(RecExpr::parse("(h gamma beta)").unwrap());
            // unrelated work that happens to mention the main thread's later constants, in another order
            for n in TIE.iter().rev() { eg.add_expr(RecExpr::parse(n).unwrap()); }
        }
        3 => {
            let a = eg.add_expr(RecExpr::parse("(h (f $x $y) beta)").unwrap());
            let b = eg.add_expr(RecExpr::parse("(h beta (f $y $x))").unwrap());
            eg.union(&a, &b);
            let rws: Vec<Rewrite<T>> = vec![Rewrite::new("hcomm", "(h ?a ?b)", "(h ?b ?a)")];
            apply_rewrites(eg, &rws);
            for i in 0..17 { eg.add_expr(RecExpr::parse(&format!("(g {})", 5000 + i)).unwrap()); }
        }
        _ => {}
    }
}

fn main() {
    let sched = std::env::args().nth(1).unwrap_or("solo".into());
    let solo = sched == "solo";
    let (go_m, rx_m): (Sender<usize>, Receiver<usize>) = channel();
    let (go_n, rx_n): (Sender<usize>, Receiver<usize>) = channel();
    let (done_tx, done_rx) = channel::<()>();
    let d1 = done_tx.clone();
    let hm = std::thread::spawn(move || {
        let mut eg: EGraph<T> = EGraph::default();
        let mut hs = Vec::new();
        while let Ok(k) = rx_m.recv() {
            main_step(k, &mut eg, &mut hs);
            d1.send(()).unwrap();
        }
    });
    let d2 = done_tx.clone();
    let hn = std::thread::spawn(move || {
        let mut eg: EGraph<T> = EGraph::default();
        while let Ok(k) = rx_n.recv() {
            noise_step(k, &mut eg);
            d2.send(()).unwrap();
        }
    });
    let (mut km, mut kn) = (0, 0);
    let seq: Vec<char> = if solo { "mmmmmmm".chars().collect() } else { sched.chars().collect() };
    for c in seq {
        if c == 'm' { go_m.send(km).unwrap(); km += 1; } else { go_n.send(kn).unwrap(); kn += 1; }
        done_rx.recv().unwrap();
    }
    drop(go_m);
    drop(go_n);
    hm.join().unwrap();
    hn.join().unwrap();
}
