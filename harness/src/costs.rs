//! The named cost functions / analyses of SlottedCC.tla (CostOf), implemented for any language
//! through to_syntax; slot independent.

use slotted_egraphs::*;
use std::collections::HashMap;

pub const COST_NAMES: [&str; 4] = ["astsize", "w2", "opw", "depth"];
pub const INF: u64 = 1_000_000;

pub fn op_of<L: Language>(n: &L) -> String {
    match n.to_syntax().first() {
        Some(SyntaxElem::String(s)) => s.clone(),
        _ => String::new(),
    }
}

fn op_weight(op: &str) -> u64 {
    match op { "f" => 3, "f3" => 3, "c" => 4, "h" => 2, "lam" => 5, "let" => 2, "k" => 2, "sum" => 3, _ => 1 }
}

pub fn cost_of(name: &str, op: &str, cs: &[u64]) -> u64 {
    let sum: u64 = cs.iter().sum();
    let c = match name {
        "astsize" => 1 + sum,
        "w2" => 1 + 2 * sum,
        "opw" => op_weight(op) + sum,
        "depth" => 1 + cs.iter().copied().max().unwrap_or(0),
        _ => panic!("unknown cost function"),
    };
    c.min(INF)
}

pub struct NamedCost(pub &'static str);

impl<L: Language> CostFunction<L> for NamedCost {
    type Cost = u64;
    fn cost<C>(&self, enode: &L, costs: C) -> u64
    where
        C: Fn(Id) -> u64,
    {
        let cs: Vec<u64> = enode.applied_id_occurrences().iter().map(|x| costs(x.id)).collect();
        cost_of(self.0, &op_of(enode), &cs)
    }
}

/// Analysis: (smallest term size, smallest term depth) of a class; merge = componentwise min.
#[derive(Default)]
pub struct SizeDepth;

impl<L: Language> Analysis<L> for SizeDepth {
    type Data = (u64, u64);
    fn make(eg: &EGraph<L, Self>, enode: &L) -> (u64, u64) {
        let ch: Vec<(u64, u64)> = enode.applied_id_occurrences().iter().map(|x| *eg.analysis_data(x.id)).collect();
        let op = op_of(enode);
        (
            cost_of("astsize", &op, &ch.iter().map(|c| c.0).collect::<Vec<_>>()),
            cost_of("depth", &op, &ch.iter().map(|c| c.1).collect::<Vec<_>>()),
        )
    }
    fn merge(l: (u64, u64), r: (u64, u64)) -> (u64, u64) {
        (l.0.min(r.0), l.1.min(r.1))
    }
}

/// Analysis: the set of leaf operators below a class; merge = set union.  Unlike the min-lattices every e-node
/// contributes to the datum, and an e-node that refers to its own class re-makes itself when the class improves.
#[derive(Default)]
pub struct Leaves;

impl<L: Language> Analysis<L> for Leaves {
    type Data = std::collections::BTreeSet<String>;
    fn make(eg: &EGraph<L, Self>, enode: &L) -> Self::Data {
        let ch = enode.applied_id_occurrences();
        // besides the leaf operators: height tags "#1" .. "#6" (Terms.tla: LeafDatum / NodeDatum) - a component in which an
        // e-node that refers to its own class improves that class again and again, up to the cap
        if ch.is_empty() {
            return [op_of(enode), "#1".to_string()].into_iter().collect();
        }
        let mut s = std::collections::BTreeSet::new();
        for x in ch { s.extend(eg.analysis_data(x.id).iter().cloned()); }
        let succ: Vec<String> = (1..6).filter(|k| s.contains(&format!("#{k}"))).map(|k| format!("#{}", k + 1)).collect();
        s.extend(succ);
        s
    }
    fn merge(mut l: Self::Data, r: Self::Data) -> Self::Data { l.extend(r); l }
}

/// rename every slot occurrence of `re` that is a key of `m`
pub fn rename_recexpr<L: Language>(re: &RecExpr<L>, m: &SlotMap) -> RecExpr<L> {
    let mut node = re.node.clone();
    for s in node.all_slot_occurrences_mut() {
        if let Some(t) = m.get(*s) {
            *s = t;
        }
    }
    RecExpr { node, children: re.children.iter().map(|c| rename_recexpr(c, m)).collect() }
}

/// A smallest representative term per live class, computed by the harness from `enodes()` only
/// (used to instantiate pattern variables; NOT an oracle for extraction).
pub fn representatives<L: Language, N: Analysis<L>>(eg: &EGraph<L, N>) -> HashMap<Id, (usize, RecExpr<L>)> {
    let mut reps: HashMap<Id, (usize, RecExpr<L>)> = HashMap::new();
    loop {
        let mut changed = false;
        for id in eg.ids() {
            for n in eg.enodes(id) {
                // enodes() numbers bound slots per node ($0, $1, ..): make them unique, or
                // nesting two representatives would capture.
                let n = n.refresh_private();
                let cs = n.applied_id_occurrences();
                if !cs.iter().all(|c| reps.contains_key(&c.id)) {
                    continue;
                }
                let size = 1 + cs.iter().map(|c| reps[&c.id].0).sum::<usize>();
                if reps.get(&id).map(|r| r.0 <= size).unwrap_or(false) {
                    continue;
                }
                let children: Vec<RecExpr<L>> = cs.iter().map(|c| rename_recexpr(&reps[&c.id].1, &c.m)).collect();
                let mut node = n.clone();
                for a in node.applied_id_occurrences_mut() {
                    *a = AppliedId::null();
                }
                reps.insert(id, (size, RecExpr { node, children }));
                changed = true;
            }
        }
        if !changed {
            break;
        }
    }
    reps
}

/// a term for the invocation `a` (redundant parameters keep whatever fresh names they have)
pub fn term_of<L: Language>(a: &AppliedId, reps: &HashMap<Id, (usize, RecExpr<L>)>) -> Option<RecExpr<L>> {
    reps.get(&a.id).map(|(_, r)| rename_recexpr(r, &a.m))
}

/// instantiate a pattern with a substitution into a term (no e-graph mutation)
pub fn instantiate<L: Language>(p: &Pattern<L>, subst: &Subst, reps: &HashMap<Id, (usize, RecExpr<L>)>) -> Option<RecExpr<L>> {
    match p {
        Pattern::PVar(v) => term_of(subst.get(v)?, reps),
        Pattern::ENode(n, ch) => {
            let children = ch.iter().map(|c| instantiate(c, subst, reps)).collect::<Option<Vec<_>>>()?;
            Some(RecExpr { node: n.clone(), children })
        }
        Pattern::Subst(..) => None,
    }
}

pub fn pattern_vars<L: Language>(p: &Pattern<L>, out: &mut Vec<String>) {
    match p {
        Pattern::PVar(v) => { if !out.contains(v) { out.push(v.clone()); } }
        Pattern::ENode(_, ch) => { for c in ch { pattern_vars(c, out); } }
        Pattern::Subst(a, b, c) => { pattern_vars(a, out); pattern_vars(b, out); pattern_vars(c, out); }
    }
}
