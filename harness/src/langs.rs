//! Harness languages, produced by the repository's own `define_language!` (the in-repo derive
//! crate, see Cargo.toml [patch]).

use slotted_egraphs::*;

define_language! {
    /// T: multi-slot leaves, plain children, every binder layout.
    pub enum T {
        F(Slot, Slot) = "f",
        P2(Slot, Slot) = "p",
        F3(Slot, Slot, Slot) = "f3",
        P3(Slot, Slot, Slot) = "p3",
        F4(Slot, Slot, Slot, Slot) = "f4",
        F5(Slot, Slot, Slot, Slot, Slot) = "f5",
        F6(Slot, Slot, Slot, Slot, Slot, Slot) = "f6",
        V(Slot) = "v",
        C() = "c",
        D() = "d",
        G(AppliedId) = "g",
        H(AppliedId, AppliedId) = "h",
        Lam(Bind<AppliedId>) = "lam",
        Let(Bind<AppliedId>, AppliedId) = "let",
        K(AppliedId, Bind<AppliedId>) = "k",
        Sum(AppliedId, Bind<Bind<AppliedId>>) = "sum",
        /// a Slot field AFTER an AppliedId field / after a Bind field
        W(AppliedId, Slot) = "w",
        Wb(Bind<AppliedId>, Slot) = "wb",
        /// three children (the same child class at non-adjacent positions: ite(A, B, A))
        Ite(AppliedId, AppliedId, AppliedId) = "ite",
        Num(u32),
        Sym(Symbol),
    }
}

define_language! {
    /// A: arithmetic over a prime field with a summation binder and a let binder (C03, C14).
    pub enum A {
        Num(u32),
        Var(Slot) = "var",
        Add(AppliedId, AppliedId) = "add",
        Mul(AppliedId, AppliedId) = "mul",
        Sum(Bind<AppliedId>) = "sum",
        Let(Bind<AppliedId>, AppliedId) = "let",
    }
}

define_language! {
    /// P: the language of the parser/printer checks (C18): one payload variant only, so that
    /// not every identifier is a leaf.
    pub enum P {
        F(Slot, Slot) = "f",
        V(Slot) = "v",
        C() = "c",
        G(AppliedId) = "g",
        H(AppliedId, AppliedId) = "h",
        Lam(Bind<AppliedId>) = "lam",
        Let(Bind<AppliedId>, AppliedId) = "let",
        Num(u32),
    }
}

define_language! {
    /// Q: NAMED operators with payload fields (`(lit 7)`, `(tag foo <child>)`), next to plain payload leaves (C18: what is
    /// printed for such a node must parse back)
    pub enum Q {
        Tag(Symbol, AppliedId) = "tag",
        Const(Symbol) = "const",
        Lit(u32) = "lit",
        Two(u32, Symbol, AppliedId, AppliedId) = "two",
        V(Slot) = "v",
        Lam(Bind<AppliedId>) = "lam",
        C() = "c",
        Num(u32),
        Sym(Symbol),
    }
}

define_language! {
    /// S1: Symbol is the ONLY unnamed payload type (no earlier variant accepts its texts), plus named operators with payloads
    /// of the other bare payload types (C16: to_syntax / from_syntax round trip of payload values)
    pub enum S1 {
        Const(Symbol) = "const",
        Tag(Symbol, AppliedId) = "tag",
        I(i64) = "i",
        U(u8) = "u",
        Bo(bool) = "bo",
        Chr(char) = "chr",
        C() = "c",
        Sym(Symbol),
    }
}
