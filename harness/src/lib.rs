pub mod langs;
pub mod term;
pub mod obs;
pub mod util;
pub mod costs;
