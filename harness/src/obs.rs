//! Observation of a real e-graph through the public API only.

use crate::term::*;
use slotted_egraphs::*;

pub struct ImplObs {
    /// per universe term: the invocation found by lookup_rec_expr (None = not represented)
    pub found: Vec<Option<AppliedId>>,
    /// per universe term: implementation class number (0 = not found), numbered by first member
    pub cls: Vec<usize>,
    pub nlive: usize,
    pub nnodes: usize,
    pub progress: [usize; 4],
}

pub fn progress_of<L: Language, N: Analysis<L>>(eg: &EGraph<L, N>) -> [usize; 4] {
    let p = eg.progress();
    [p.number_of_classes, p.number_of_live_classes, p.sum_of_slots, p.sum_of_symmetries]
}

/// documented direction of the progress measure (C13)
pub fn progress_ok(a: &[usize; 4], b: &[usize; 4]) -> bool {
    if b[0] < a[0] {
        return false;
    }
    if b[0] > a[0] {
        return true;
    }
    if b[1] > a[1] {
        return false;
    }
    if b[1] < a[1] {
        return true;
    }
    if b[2] > a[2] {
        return false;
    }
    if b[2] < a[2] {
        return true;
    }
    b[3] >= a[3]
}

pub fn observe<L: Language, N: Analysis<L>>(
    eg: &EGraph<L, N>,
    exprs: &[RecExpr<L>],
) -> ImplObs {
    let mut found = Vec::with_capacity(exprs.len());
    for e in exprs {
        found.push(lookup_rec_expr(e, eg));
    }
    // partition by eq
    let mut reps: Vec<(usize, AppliedId)> = Vec::new(); // (class number, representative)
    let mut cls = vec![0usize; exprs.len()];
    for (i, f) in found.iter().enumerate() {
        let Some(a) = f else { continue };
        let fa = eg.find_applied_id(a);
        let mut hit = 0;
        for (c, r) in &reps {
            if r.id == fa.id && eg.eq(r, &fa) {
                hit = *c;
                break;
            }
        }
        if hit == 0 {
            hit = reps.len() + 1;
            reps.push((hit, fa));
        }
        cls[i] = hit;
    }
    ImplObs {
        found,
        cls,
        nlive: eg.ids().len(),
        nnodes: eg.total_number_of_nodes(),
        progress: progress_of(eg),
    }
}

/// number of permutations of the invocation's arguments that the e-graph reports as equal
pub fn sym_count<L: Language, N: Analysis<L>>(eg: &EGraph<L, N>, a: &AppliedId) -> usize {
    let a = eg.find_applied_id(a);
    let keys: Vec<Slot> = a.m.keys_vec();
    let vals: Vec<Slot> = a.m.values_vec();
    let mut n = 0;
    for p in perms(keys.len()) {
        let m: SlotMap = keys.iter().enumerate().map(|(i, k)| (*k, vals[p[i]])).collect();
        let b = AppliedId::new(a.id, m);
        if eg.eq(&a, &b) {
            n += 1;
        }
    }
    n
}

/// abstract names of the slots of an invocation (None entries = not a user name)
pub fn slot_names(a: &AppliedId, nm: &Naming) -> Vec<Option<u32>> {
    let mut v: Vec<Option<u32>> = a.slots().iter().map(|s| nm.name(*s)).collect();
    v.sort();
    v
}

/// Structural consistency through the public API (C08): returns a description of the first
/// problem found.
pub fn dump_consistent<L: Language, N: Analysis<L>>(eg: &EGraph<L, N>) -> Result<(), String> {
    use std::collections::HashMap;
    let mut shapes: HashMap<L, Id> = HashMap::new();
    for id in eg.ids() {
        if !eg.is_alive(id) {
            return Err(format!("ids() lists dead class {id:?}"));
        }
        let cslots = eg.slots(id);
        let ident = eg.mk_identity_applied_id(id);
        let f = eg.find_applied_id(&ident);
        if f != ident {
            return Err(format!("find(identity({id:?})) = {f:?} is not the identity"));
        }
        let ff = eg.find_applied_id(&f);
        if ff != f {
            return Err(format!("find is not idempotent on {ident:?}"));
        }
        for n in eg.enodes(id) {
            if !n.slots().is_superset(&cslots) {
                return Err(format!(
                    "e-node {n:?} of class {id:?} does not mention all class slots {cslots:?}"
                ));
            }
            match eg.lookup(&n) {
                None => return Err(format!("e-node {n:?} listed for {id:?} cannot be looked up")),
                Some(a) => {
                    if a.id != id {
                        return Err(format!(
                            "e-node {n:?} listed for {id:?} looks up to {:?}",
                            a.id
                        ));
                    }
                    if !eg.eq(&a, &ident) {
                        return Err(format!(
                            "INVOCATION e-node {n:?} listed for {id:?} looks up to a different invocation {a:?}"
                        ));
                    }
                }
            }
            for c in n.applied_id_occurrences() {
                if !eg.is_alive(c.id) {
                    return Err(format!("e-node {n:?} of {id:?} has dead child {c:?}"));
                }
                if &eg.find_applied_id(c) != c {
                    return Err(format!("e-node {n:?} of {id:?} has non-canonical child {c:?}"));
                }
                if c.m.keys() != eg.slots(c.id) {
                    return Err(format!("child {c:?} of {n:?} has wrong parameter set"));
                }
            }
            let (sh, _) = n.weak_shape();
            if let Some(other) = shapes.insert(sh.clone(), id) {
                if other != id {
                    return Err(format!(
                        "shape {sh:?} belongs to two live classes {other:?} and {id:?}"
                    ));
                }
            }
        }
    }
    Ok(())
}
