//! Name-abstract terms shared with the TLA+ specification (JSON encoding of spec/Terms.tla)
//! and their translation to/from the library's `RecExpr<L>` under a *naming*.

use serde::{Deserialize, Serialize};
use slotted_egraphs::*;
use std::collections::BTreeMap;

#[derive(Clone, Debug, PartialEq, Eq, Hash, PartialOrd, Ord, Serialize, Deserialize)]
pub struct Child {
    pub bd: Vec<u32>,
    pub t: Term,
}

#[derive(Clone, Debug, PartialEq, Eq, Hash, PartialOrd, Ord, Serialize, Deserialize)]
pub struct Term {
    pub op: String,
    pub sl: Vec<u32>,
    pub ch: Vec<Child>,
}

impl Term {
    pub fn leaf(op: &str, sl: &[u32]) -> Term {
        Term { op: op.to_string(), sl: sl.to_vec(), ch: vec![] }
    }
    pub fn node(op: &str, ch: Vec<(Vec<u32>, Term)>) -> Term {
        Term {
            op: op.to_string(),
            sl: vec![],
            ch: ch.into_iter().map(|(bd, t)| Child { bd, t }).collect(),
        }
    }

    /// rename ALL names (free and bound); capture free iff `m` injective on the names of self.
    pub fn ren(&self, m: &dyn Fn(u32) -> u32) -> Term {
        Term {
            op: self.op.clone(),
            sl: self.sl.iter().map(|x| m(*x)).collect(),
            ch: self
                .ch
                .iter()
                .map(|c| Child { bd: c.bd.iter().map(|x| m(*x)).collect(), t: c.t.ren(m) })
                .collect(),
        }
    }

    pub fn fv(&self) -> Vec<u32> {
        let mut out = Vec::new();
        self.fv_acc(&mut Vec::new(), &mut out);
        out
    }
    fn fv_acc(&self, bound: &mut Vec<u32>, out: &mut Vec<u32>) {
        for x in &self.sl {
            if !bound.contains(x) && !out.contains(x) {
                out.push(*x);
            }
        }
        for c in &self.ch {
            let k = bound.len();
            bound.extend(c.bd.iter().copied());
            c.t.fv_acc(bound, out);
            bound.truncate(k);
        }
    }

    pub fn names(&self) -> Vec<u32> {
        let mut out = Vec::new();
        self.names_acc(&mut out);
        out
    }
    fn names_acc(&self, out: &mut Vec<u32>) {
        for x in &self.sl {
            if !out.contains(x) {
                out.push(*x);
            }
        }
        for c in &self.ch {
            for x in &c.bd {
                if !out.contains(x) {
                    out.push(*x);
                }
            }
            c.t.names_acc(out);
        }
    }

    pub fn size(&self) -> usize {
        1 + self.ch.iter().map(|c| c.t.size()).sum::<usize>()
    }

    pub fn subterms(&self) -> Vec<Term> {
        let mut out = vec![self.clone()];
        for c in &self.ch {
            out.extend(c.t.subterms());
        }
        out
    }

    /// s-expression text with abstract names, for reports.
    pub fn show(&self) -> String {
        if self.sl.is_empty() && self.ch.is_empty() {
            return self.op.clone();
        }
        let mut s = format!("({}", self.op);
        for x in &self.sl {
            s += &format!(" {x}");
        }
        for c in &self.ch {
            for x in &c.bd {
                s += &format!(" {x}");
            }
            s += " ";
            s += &c.t.show();
        }
        s + ")"
    }
}

/// A naming maps abstract names (small integers) to concrete slots of the current thread.
#[derive(Clone, Debug)]
pub struct Naming {
    pub kind: String,
    fwd: std::cell::RefCell<BTreeMap<u32, Slot>>,
    bwd: std::cell::RefCell<BTreeMap<Slot, u32>>,
    /// abstract name whose concrete `$f<n>` name is only parsed when it is first used
    lazy: Option<u32>,
}

pub const NAMINGS: [&str; 9] = ["num-asc", "num-desc", "txt-fwd", "txt-rev", "fresh-big", "fresh-next", "fresh-lazy", "mixed-a", "mixed-b"];

impl Naming {
    /// Build the naming `kind` for abstract names 1..=max in the *current thread*.
    /// Textual namings intern their names now (this fixes their internal order).
    pub fn new(kind: &str, max: u32) -> Naming {
        let mut fwd = BTreeMap::new();
        let names: Vec<u32> = (1..=max).collect();
        match kind {
            "num-asc" => {
                for k in &names {
                    fwd.insert(*k, Slot::numeric(*k));
                }
            }
            "num0" => {
                // the names the library itself uses for shapes: $0, $1, .. (a node written with them may already
                // LOOK canonical)
                for k in &names {
                    fwd.insert(*k, Slot::numeric(*k - 1));
                }
            }
            "num-desc" => {
                for k in &names {
                    fwd.insert(*k, Slot::numeric(1000 - *k));
                }
            }
            "txt-fwd" => {
                for k in &names {
                    fwd.insert(*k, Slot::named(&format!("s{k}")));
                }
            }
            "txt-rev" => {
                for k in names.iter().rev() {
                    fwd.insert(*k, Slot::named(&format!("r{k}")));
                }
            }
            "fresh-big" => {
                // names of the internal `$f<n>` form with n far beyond anything Slot::fresh
                // can have issued: parsing them moves the fresh counter past them (C17).
                for k in names.iter().rev() {
                    fwd.insert(*k, Slot::named(&format!("f{}", 1_000_000 + 7 * *k)));
                }
            }
            "fresh-next" => {
                // ONE name of the form `$f<n>` where n is EXACTLY the index Slot::fresh() would
                // return next - a legitimate new name (never issued before); parsing it must move
                // the fresh counter past it (C17), otherwise the next internal slot captures the
                // user's.  It has to be the last name parsed (a later `$f<m>`, m > n, would move
                // the counter anyway), so the other names are textual.
                for k in names.iter().skip(1) {
                    fwd.insert(*k, Slot::named(&format!("q{k}")));
                }
                if let Some(k) = names.first() {
                    let probe = Slot::fresh().to_string(); // "$f<i>"
                    let n: u64 = probe[2..].parse::<u64>().unwrap() + 1;
                    fwd.insert(*k, Slot::named(&format!("f{n}")));
                }
            }
            "fresh-lazy" => {
                // like fresh-next, but name 1 is parsed only when a term that mentions it is
                // converted (in the middle of the history): see `slot`.
                for k in names.iter().skip(1) {
                    fwd.insert(*k, Slot::named(&format!("z{k}")));
                }
            }
            "mixed-a" | "mixed-b" => {
                // all three kinds of slot in one history: textual names interned in REVERSE
                // alphabetical order, numeric names whose numbers lie just above the interning
                // index of the textual name before them (found by comparing with numeric
                // slots), and (mixed-b) a name of the internal `$f<n>` form.  The order of slots
                // (SlotMap and slot sets are sorted) must be one total order across the kinds.
                let mut last_txt: Option<Slot> = None;
                let mut used: Vec<Slot> = Vec::new();
                for k in &names {
                    let s = match (kind, *k % 3) {
                        (_, 1) => Slot::named(&format!("t{}", 99 - *k)),
                        ("mixed-a", 0) => Slot::named(&format!("a{}", 99 - *k)),
                        ("mixed-b", 0) => Slot::named(&format!("f{}", 2_000_000 + *k)),
                        _ => {
                            let mut n = 0u32;
                            if let Some(t) = last_txt {
                                while n < 100_000 && !(Slot::numeric(n) > t) { n += 1; }
                            }
                            while used.contains(&Slot::numeric(n)) { n += 1; }
                            Slot::numeric(n)
                        }
                    };
                    if *k % 3 != 2 { last_txt = Some(s); }
                    used.push(s);
                    fwd.insert(*k, s);
                }
            }
            _ => panic!("unknown naming {kind}"),
        }
        let bwd = fwd.iter().map(|(k, s)| (*s, *k)).collect();
        let lazy = if kind == "fresh-lazy" { Some(1) } else { None };
        Naming { kind: kind.to_string(), fwd: std::cell::RefCell::new(fwd), bwd: std::cell::RefCell::new(bwd), lazy }
    }
    pub fn slot(&self, k: u32) -> Slot {
        if let Some(s) = self.fwd.borrow().get(&k) {
            return *s;
        }
        if self.lazy == Some(k) {
            // `$f<n>` with n exactly the index the next Slot::fresh() would return
            let probe = Slot::fresh().to_string();
            let n: u64 = probe[2..].parse::<u64>().unwrap() + 1;
            let s = Slot::named(&format!("f{n}"));
            self.fwd.borrow_mut().insert(k, s);
            self.bwd.borrow_mut().insert(s, k);
            return s;
        }
        panic!("naming: abstract name {k} out of range")
    }
    /// abstract name of a concrete slot, if it is one of the user's names.
    pub fn name(&self, s: Slot) -> Option<u32> {
        self.bwd.borrow().get(&s).copied()
    }
    pub fn slotmap(&self, pairs: &[(u32, u32)]) -> SlotMap {
        pairs.iter().map(|(a, b)| (self.slot(*a), self.slot(*b))).collect()
    }
}

/// Term -> RecExpr<L> through the language's own `from_syntax`
/// (operator, direct slots, then per child its binders and a child placeholder).
/// operators whose direct slots come AFTER the children in the library's syntax (`W(AppliedId, Slot)`)
pub const POST_SLOT_OPS: [&str; 2] = ["w", "wb"];

pub fn to_recexpr<L: Language>(t: &Term, nm: &Naming) -> Result<RecExpr<L>, String> {
    let mut elems = vec![SyntaxElem::String(t.op.clone())];
    let post = POST_SLOT_OPS.contains(&t.op.as_str());
    if !post {
        for x in &t.sl {
            elems.push(SyntaxElem::Slot(nm.slot(*x)));
        }
    }
    for c in &t.ch {
        for x in &c.bd {
            elems.push(SyntaxElem::Slot(nm.slot(*x)));
        }
        elems.push(SyntaxElem::AppliedId(AppliedId::null()));
    }
    if post {
        for x in &t.sl {
            elems.push(SyntaxElem::Slot(nm.slot(*x)));
        }
    }
    let node = L::from_syntax(&elems).ok_or_else(|| format!("from_syntax failed for {}", t.show()))?;
    if node.applied_id_occurrences().len() != t.ch.len() {
        return Err(format!("arity mismatch for {}", t.show()));
    }
    let mut children = Vec::new();
    for c in &t.ch {
        children.push(to_recexpr::<L>(&c.t, nm)?);
    }
    Ok(RecExpr { node, children })
}

/// RecExpr<L> -> Term.  Slots that are not user names get abstract names from `extra`
/// (allocated on demand starting at `extra_base`): these are the brand-new slots the library
/// invents for redundant positions / bound variables.
pub struct BackNamer<'a> {
    pub nm: &'a Naming,
    pub extra: BTreeMap<Slot, u32>,
    pub extra_base: u32,
}

impl<'a> BackNamer<'a> {
    pub fn new(nm: &'a Naming, extra_base: u32) -> Self {
        BackNamer { nm, extra: BTreeMap::new(), extra_base }
    }
    pub fn name(&mut self, s: Slot) -> u32 {
        if let Some(k) = self.nm.name(s) {
            return k;
        }
        let n = self.extra.len() as u32;
        *self.extra.entry(s).or_insert(self.extra_base + n)
    }
    pub fn term<L: Language>(&mut self, re: &RecExpr<L>) -> Term {
        let syn = re.node.to_syntax();
        let mut op = String::new();
        let mut pending: Vec<u32> = Vec::new();
        let mut ch: Vec<Child> = Vec::new();
        let mut ci = 0;
        for (i, e) in syn.iter().enumerate() {
            match e {
                SyntaxElem::String(s) => {
                    if i == 0 {
                        op = s.clone();
                    } else {
                        op = format!("{op} {s}");
                    }
                }
                SyntaxElem::Slot(s) => pending.push(self.name(*s)),
                SyntaxElem::AppliedId(_) => {
                    let t = self.term(&re.children[ci]);
                    ci += 1;
                    ch.push(Child { bd: std::mem::take(&mut pending), t });
                }
            }
        }
        // slots before the first child of a node WITH children are binders of that child in
        // all harness languages; a node without children holds its slots directly.
        // (slots AFTER the last child are direct slots again: POST_SLOT_OPS)
        let sl = pending;
        Term { op, sl, ch }
    }
}

pub fn perms(n: usize) -> Vec<Vec<usize>> {
    fn rec(cur: &mut Vec<usize>, used: &mut Vec<bool>, n: usize, out: &mut Vec<Vec<usize>>) {
        if cur.len() == n {
            out.push(cur.clone());
            return;
        }
        for i in 0..n {
            if !used[i] {
                used[i] = true;
                cur.push(i);
                rec(cur, used, n, out);
                cur.pop();
                used[i] = false;
            }
        }
    }
    let mut out = Vec::new();
    rec(&mut Vec::new(), &mut vec![false; n], n, &mut out);
    out
}
