//! Panic capture: a panic in the code under test is data, not a crash of the harness.

use std::cell::RefCell;
use std::panic::{self, AssertUnwindSafe};
use std::sync::Once;

#[derive(Clone, Debug, serde::Serialize)]
pub struct PanicInfo {
    pub msg: String,
    pub site: String,
}

thread_local! {
    static LAST: RefCell<Option<PanicInfo>> = RefCell::new(None);
    static QUIET: RefCell<bool> = RefCell::new(false);
}

static HOOK: Once = Once::new();

pub fn install_hook() {
    HOOK.call_once(|| {
        let old = panic::take_hook();
        panic::set_hook(Box::new(move |info| {
            let quiet = QUIET.with(|q| *q.borrow());
            let msg = if let Some(s) = info.payload().downcast_ref::<&str>() {
                s.to_string()
            } else if let Some(s) = info.payload().downcast_ref::<String>() {
                s.clone()
            } else {
                "<non-string panic>".to_string()
            };
            let site = info
                .location()
                .map(|l| format!("{}:{}", l.file(), l.line()))
                .unwrap_or_default();
            if quiet {
                LAST.with(|l| *l.borrow_mut() = Some(PanicInfo { msg, site }));
            } else {
                old(info);
            }
        }));
    });
}

/// Run `f`; a panic is returned as Err with message and source location.
pub fn guard<T>(f: impl FnOnce() -> T) -> Result<T, PanicInfo> {
    install_hook();
    QUIET.with(|q| *q.borrow_mut() = true);
    let r = panic::catch_unwind(AssertUnwindSafe(f));
    QUIET.with(|q| *q.borrow_mut() = false);
    match r {
        Ok(v) => Ok(v),
        Err(_) => Err(LAST
            .with(|l| l.borrow_mut().take())
            .unwrap_or(PanicInfo { msg: "<unknown>".into(), site: String::new() })),
    }
}

/// Strip the message down to something stable (no slot numbers / ids) for known-finding keys.
pub fn site_key(p: &PanicInfo) -> String {
    let s = p.site.replace("/repo/", "");
    s
}

pub fn env_u64(name: &str, default: u64) -> u64 {
    std::env::var(name).ok().and_then(|s| s.parse().ok()).unwrap_or(default)
}

// ------------------------------------------------------------------------------------------------
// Watchdog: code under test that never returns must not hang the check.  Workers call `tick`
// before every library operation; if no tick arrives for `limit` seconds the process prints a
// finding (property "*": it counts for whichever property is being checked) and exits with 3.
// ------------------------------------------------------------------------------------------------
use std::sync::atomic::{AtomicU64, Ordering};
use std::sync::Mutex;
static LAST_TICK: AtomicU64 = AtomicU64::new(0);
static LAST_DESC: Mutex<String> = Mutex::new(String::new());
static WATCHDOG: Once = Once::new();

fn now_secs() -> u64 {
    std::time::SystemTime::now().duration_since(std::time::UNIX_EPOCH).map(|d| d.as_secs()).unwrap_or(0)
}

pub fn tick(desc: &str) {
    LAST_TICK.store(now_secs(), Ordering::Relaxed);
    if let Ok(mut d) = LAST_DESC.try_lock() {
        d.clear();
        d.push_str(desc);
    }
}

pub fn start_watchdog(limit: u64) {
    WATCHDOG.call_once(|| {
        LAST_TICK.store(now_secs(), Ordering::Relaxed);
        std::thread::spawn(move || loop {
            std::thread::sleep(std::time::Duration::from_secs(1));
            let idle = now_secs().saturating_sub(LAST_TICK.load(Ordering::Relaxed));
            if idle > limit {
                let d = LAST_DESC.lock().map(|d| d.clone()).unwrap_or_default();
                println!("{}", serde_json::json!({"kind":"finding","prop":"*","what":"an operation of the library does not terminate (watchdog)",
                    "site":"","universe":"","key":[],"path":[],"step":0,"naming":"","mode":"","detail":{"last_operation_started": d, "idle_seconds": idle}}));
                println!("{}", serde_json::json!({"kind":"summary","hang":true}));
                std::process::exit(3);
            }
        });
    });
}
