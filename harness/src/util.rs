//! Panic capture: a panic in the code under test is data, not a crash of the harness.

use std::cell::RefCell;
use std::panic::{self, AssertUnwindSafe};
use std::sync::Once;

#[derive(Clone, Debug, serde::Serialize)]
pub struct PanicInfo {
    pub msg: String,
    pub site: String,
}

thread_local! {
    static LAST: RefCell<Option<PanicInfo>> = RefCell::new(None);
    static QUIET: RefCell<bool> = RefCell::new(false);
}

static HOOK: Once = Once::new();

pub fn install_hook() {
    HOOK.call_once(|| {
        let old = panic::take_hook();
        panic::set_hook(Box::new(move |info| {
            let quiet = QUIET.with(|q| *q.borrow());
            let msg = if let Some(s) = info.payload().downcast_ref::<&str>() {
                s.to_string()
            } else if let Some(s) = info.payload().downcast_ref::<String>() {
                s.clone()
            } else {
                "<non-string panic>".to_string()
            };
            let site = info
                .location()
                .map(|l| format!("{}:{}", l.file(), l.line()))
                .unwrap_or_default();
            if quiet {
                LAST.with(|l| *l.borrow_mut() = Some(PanicInfo { msg, site }));
            } else {
                old(info);
            }
        }));
    });
}

/// Run `f`; a panic is returned as Err with message and source location.
pub fn guard<T>(f: impl FnOnce() -> T) -> Result<T, PanicInfo> {
    install_hook();
    QUIET.with(|q| *q.borrow_mut() = true);
    let r = panic::catch_unwind(AssertUnwindSafe(f));
    QUIET.with(|q| *q.borrow_mut() = false);
    match r {
        Ok(v) => Ok(v),
        Err(_) => Err(LAST
            .with(|l| l.borrow_mut().take())
            .unwrap_or(PanicInfo { msg: "<unknown>".into(), site: String::new() })),
    }
}

/// Strip the message down to something stable (no slot numbers / ids) for known-finding keys.
pub fn site_key(p: &PanicInfo) -> String {
    let s = p.site.replace("/repo/", "");
    s
}

pub fn env_u64(name: &str, default: u64) -> u64 {
    std::env::var(name).ok().and_then(|s| s.parse().ok()).unwrap_or(default)
}
