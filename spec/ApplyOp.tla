------------------------------- MODULE ApplyOp -------------------------------
(***************************************************************************)
(* Operational model of rule application (src/rewrite/pattern.rs,           *)
(* src/rewrite/mod.rs) on the operational e-graph model:                     *)
(*                                                                         *)
(*   PatternSubst     pattern_subst: instantiate a pattern bottom-up, every  *)
(*                    node through AddNode (add), variables from the match   *)
(*   UnionInst        union_instantiations: both sides, then union           *)
(*   ApplyRewrites    apply_rewrites: ALL searchers run on the state before  *)
(*                    the call (EmatchAll of EMatchOp), then the appliers,   *)
(*                    rule by rule, match by match - on an e-graph that the  *)
(*                    earlier applications have already changed (the         *)
(*                    matches' invocations may name merged-away classes:     *)
(*                    AddNode / Union canonicalise them)                      *)
(*                                                                         *)
(* MC_ApplyOp checks C04 at design level: in every reachable quiescent      *)
(* state of EGraphOp over a fire universe, one ApplyRewrites call makes the *)
(* right side of every planted instance whose left side the declarative     *)
(* specification calls represented present and equal to the left side, and  *)
(* leaves a well-formed state.                                               *)
(*                                                                         *)
(* Named deviations: no conditions, no Subst patterns (b[x := t]), matches  *)
(* are applied in an arbitrary but fixed order (the code: list order).       *)
(***************************************************************************)
EXTENDS EMatchOp

RECURSIVE PatternSubst(_, _, _), PSubstCh(_, _, _, _, _)
PSubstCh(st, p, sg, k, acc) ==
  IF k > Len(p.ch) THEN [st |-> st, ch |-> acc]
  ELSE LET r == PatternSubst(st, p.ch[k].t, sg) IN
       PSubstCh(r.st, p, sg, k + 1, Append(acc, [bd |-> p.ch[k].bd, a |-> r.a]))
PatternSubst(st, p, sg) ==
  IF IsPVar(p) THEN [st |-> st, a |-> sg[p.op]]
  ELSE LET r == PSubstCh(st, p, sg, 1, << >>) IN
       AddNode(r.st, [op |-> p.op, sl |-> p.sl, ch |-> r.ch])

UnionInst(st, l, r, sg) ==
  LET a == PatternSubst(st, l, sg)
      b == PatternSubst(a.st, r, sg)
  IN Union(b.st, a.a, b.a)

RECURSIVE ApplyMatches(_, _, _, _)
ApplyMatches(st, l, r, ms) ==
  IF ms = << >> THEN st ELSE ApplyMatches(UnionInst(st, l, r, Head(ms)), l, r, Tail(ms))

RECURSIVE ApplyAll(_, _, _, _)
ApplyAll(st, rules, found, k) ==
  IF k > Len(rules) THEN st
  ELSE ApplyAll(ApplyMatches(st, rules[k].l, rules[k].r, found[k]), rules, found, k + 1)

(* apply_rewrites: the searchers see the state before the call *)
ApplyRewrites(st, rules) ==
  LET found == [k \in DOMAIN rules |-> SetToSeq(EmatchAll(st, rules[k].l))] IN
  ApplyAll(st, rules, found, 1)
=============================================================================
