------------------------------ MODULE EGraphOp ------------------------------
(***************************************************************************)
(* Operational, implementation-shaped model of the slotted e-graph          *)
(* (src/egraph/{add,find,union,rebuild}.rs): classes with slot sets, e-nodes *)
(* whose children are invocations (id + slot map), a union-find with slot   *)
(* maps, per-class symmetry groups, and the pending work list.  One         *)
(* operator per function of the code:                                       *)
(*                                                                         *)
(*   FindA            find_applied_id / unionfind_get                        *)
(*   ShapeKey, Lookup shape (minimum over the group variants), lookup_internal *)
(*   AddNode          add_internal + mk_singleton_class                     *)
(*   UnionInternal, UnionLeaders, ShrinkSlots, MoveTo                        *)
(*   HandlePending, SelfSym (determine_self_symmetries), Touch, Rebuild      *)
(*                                                                         *)
(* Where SlottedCC.tla says WHAT the congruence is, this module says HOW    *)
(* the library computes it; MC_EGraphOp checks that every quiescent state   *)
(* of this model denotes exactly the congruence of SlottedCC (soundness,    *)
(* completeness, slot sets, symmetry groups), satisfies the structural      *)
(* invariants of src/egraph/check.rs, and does so for both processing       *)
(* orders of the pending list.                                               *)
(*                                                                         *)
(* Named deviations from the code (none observable at quiescence):          *)
(*  - no hashcons: Lookup searches the live classes for a node with the     *)
(*    same shape key, computed under the CURRENT groups (the code's stored  *)
(*    key of a stale node is the old one; stale nodes are pending anyway)   *)
(*  - the shape key is the SET of weak shapes of all group variants (the    *)
(*    code takes its minimum under an arbitrary total order)                *)
(*  - groups are stored as the full set of permutations, not as a           *)
(*    stabiliser chain (that refinement is Group.tla / C10)                 *)
(*  - no proofs, no syn/sem distinction; the ANALYSIS is modelled (constant  *)
(*    Analysis): per class a datum, make/merge, pending entries of type     *)
(*    "full" / "only" (PendingType), update_analysis, the join in move_to;   *)
(*    no modify hook                                                         *)
(*  - which of two classes survives a merge: the one with more nodes+usages *)
(*    (the code also prefers fewer syntactic slots); immaterial             *)
(*  - the pending list is a sequence served first-in-first-out or           *)
(*    last-in-first-out (the code: hash-map order)                          *)
(***************************************************************************)
EXTENDS Terms, SequencesExt

CONSTANTS Policy,       \* "fifo" | "lifo": order in which pending e-nodes are served
          Analysis      \* "none" | "leaves" (set of leaf operators, merge = union) | "size" (smallest term size, merge = min)

FreshBase == 100        \* names >= FreshBase are internal (class slots, refreshed binders)

(*************************** finite maps ***********************************)
Rng(f)       == {f[x] : x \in DOMAIN f}
Inv(f)       == [y \in Rng(f) |-> CHOOSE x \in DOMAIN f : f[x] = y]
Comp(f, g)   == [x \in {y \in DOMAIN f : f[y] \in DOMAIN g} |-> g[f[x]]]   \* x |-> g[f[x]]
Restr(f, D)  == [x \in (DOMAIN f) \cap D |-> f[x]]
IdOn(D)      == [x \in D |-> x]
Ap(f, x)     == IF x \in DOMAIN f THEN f[x] ELSE x
KSort(S)     == SetToSortSeq(S, <)

(*************************** e-nodes ***************************************)
(* node  = [op, sl : Seq(name), ch : Seq([bd : Seq(name), a : invocation])] *)
(* invocation a = [id, m] with m : slots(id) -> names                       *)
NPub(n) == Range(n.sl) \cup UNION {Rng(n.ch[k].a.m) \ Range(n.ch[k].bd) : k \in DOMAIN n.ch}
Refs(n) == {n.ch[k].a.id : k \in DOMAIN n.ch}
NRen(n, f) ==
  [op |-> n.op,
   sl |-> [i \in DOMAIN n.sl |-> Ap(f, n.sl[i])],
   ch |-> [k \in DOMAIN n.ch |->
             [bd |-> [i \in DOMAIN n.ch[k].bd |-> Ap(f, n.ch[k].bd[i])],
              a  |-> [id |-> n.ch[k].a.id,
                      m  |-> [x \in DOMAIN n.ch[k].a.m |-> Ap(f, n.ch[k].a.m[x])]]]]]

(* all slot occurrences, left to right (all_slot_occurrences)               *)
OccCh(c) == LET ks == KSort(DOMAIN c.a.m) IN c.bd \o [i \in DOMAIN ks |-> c.a.m[ks[i]]]
Occ(n)   == n.sl \o FlattenSeq([k \in DOMAIN n.ch |-> OccCh(n.ch[k])])
FirstOcc(n) == AppendNew(<< >>, Occ(n))
WeakShape(n) ==
  LET ns == FirstOcc(n) IN NRen(n, [x \in Range(ns) |-> PosIn(ns, x)])

(*************************** groups ****************************************)
RECURSIVE GClose(_)
GClose(G) ==
  LET G2 == G \cup {Comp(p, q) : p \in G, q \in G} IN IF G2 = G THEN G ELSE GClose(G2)

(*************************** state *****************************************)
(* st = [cls  : id -> [alive, slots, nodes, grp, data],                     *)
(*       uf   : id -> invocation (leader: [id, identity on its slots]),     *)
(*       pend : Seq(<<id, node, type>>),  nid : next id,  ns : next fresh name] *)
Empty == [cls |-> << >>, uf |-> << >>, pend |-> << >>, nid |-> 1, ns |-> FreshBase]
Ids(st)   == DOMAIN st.cls
Alive(st) == {i \in Ids(st) : st.cls[i].alive}

AllNodes(st) == UNION {{<<i, c>> : c \in st.cls[i].nodes} : i \in Alive(st)}

RECURSIVE FindA(_, _)
FindA(st, a) ==
  LET u == st.uf[a.id] IN
  IF u.id = a.id THEN [id |-> a.id, m |-> Restr(a.m, st.cls[a.id].slots)]
  ELSE FindA(st, [id |-> u.id, m |-> Comp(u.m, a.m)])

FindNode(st, n) ==
  [n EXCEPT !.ch = [k \in DOMAIN n.ch |-> [bd |-> n.ch[k].bd, a |-> FindA(st, n.ch[k].a)]]]

IsCanon(st, n) ==
  \A k \in DOMAIN n.ch : /\ st.uf[n.ch[k].a.id].id = n.ch[k].a.id
                         /\ DOMAIN n.ch[k].a.m = st.cls[n.ch[k].a.id].slots

EqA(st, a, b) ==
  LET x == FindA(st, a)
      y == FindA(st, b)
  IN /\ x.id = y.id
     /\ Rng(x.m) = Rng(y.m)
     /\ Comp(x.m, Inv(y.m)) \in st.cls[x.id].grp

(* every way of permuting the arguments of the children as their groups allow *)
Variants(st, n) ==
  LET allp == UNION {st.cls[i].grp : i \in Refs(n)}
      pss  == {ps \in [DOMAIN n.ch -> allp] : \A k \in DOMAIN n.ch : ps[k] \in st.cls[n.ch[k].a.id].grp}
  IN {[n EXCEPT !.ch = [k \in DOMAIN n.ch |->
                          [bd |-> n.ch[k].bd,
                           a  |-> [id |-> n.ch[k].a.id, m |-> Comp(ps[k], n.ch[k].a.m)]]]] : ps \in pss}

ShapeKey(st, n) == {WeakShape(v) : v \in Variants(st, n)}

(* position-wise bijection between the names of two nodes of equal weak shape *)
NameMap(from, to) ==
  LET a == Occ(from)
      b == Occ(to)
  IN [x \in Range(a) |-> b[PosIn(a, x)]]

(* lookup_internal: the invocation of a class that holds a node of n's shape *)
Hits(st, n) ==
  {h \in AllNodes(st) :
     /\ h[2].op = n.op /\ Refs(h[2]) = Refs(n)             \* cheap pre-filter
     /\ IsCanon(st, h[2])
     /\ WeakShape(n) \in ShapeKey(st, h[2])}
HitInvocation(st, n, h) ==
  LET cv == CHOOSE v \in Variants(st, h[2]) : WeakShape(v) = WeakShape(n)
      nm == NameMap(cv, n)
  IN [id |-> h[1], m |-> Restr(nm, st.cls[h[1]].slots)]

(*************************** analysis ***************************************)
INFSIZE == 1000000
RECURSIVE SumSq(_)
SumSq(q) == IF q = << >> THEN 0 ELSE Head(q) + SumSq(Tail(q))
AnMake(st, n) ==
  CASE Analysis = "leaves" -> IF n.ch = << >> THEN LeafDatum(n.op) ELSE NodeDatum(UNION {st.cls[FindA(st, n.ch[k].a).id].data : k \in DOMAIN n.ch})
    [] Analysis = "size"   -> LET t == 1 + SumSq([k \in DOMAIN n.ch |-> st.cls[FindA(st, n.ch[k].a).id].data]) IN IF t > INFSIZE THEN INFSIZE ELSE t
    [] OTHER               -> 0
AnMerge(a, b) ==
  CASE Analysis = "leaves" -> a \cup b
    [] Analysis = "size"   -> IF a <= b THEN a ELSE b
    [] OTHER               -> 0

(* upon touching a class, all e-nodes that use it have to be re-canonicalised
   ("full") or at least re-analysed ("only"); a queued entry keeps the stronger type *)
PendKeys(st) == {<<q[1], q[2]>> : q \in Range(st.pend)}
TouchT(st, i, ty) ==
  LET us  == {p \in AllNodes(st) : i \in Refs(p[2])}
      new == us \ PendKeys(st)
      up  == [k \in DOMAIN st.pend |->
                IF ty = "full" /\ <<st.pend[k][1], st.pend[k][2]>> \in us THEN <<st.pend[k][1], st.pend[k][2], "full">> ELSE st.pend[k]]
      nq  == SetToSeq(new)
  IN [st EXCEPT !.pend = up \o [k \in DOMAIN nq |-> <<nq[k][1], nq[k][2], ty>>]]
Touch(st, i) == TouchT(st, i, "full")

(* update_analysis: re-make the node, join into its class, re-queue the parents when the datum changed *)
UpdateAnalysis(st, i, c) ==
  LET old == st.cls[i].data
      new == AnMerge(old, AnMake(st, c))
  IN IF new = old THEN st ELSE TouchT([st EXCEPT !.cls[i].data = new], i, "only")

Fresh(st, S) ==      \* a map S -> brand-new names, and the state that knows they are used
  LET ss == KSort(S) IN
  [f |-> [x \in S |-> st.ns + PosIn(ss, x) - 1], st |-> [st EXCEPT !.ns = @ + Cardinality(S)]]

RemoveNode(st, i, c) == [st EXCEPT !.cls[i].nodes = @ \ {c},
                                   !.pend = SelectSeq(@, LAMBDA p : <<p[1], p[2]>> # <<i, c>>)]

(***************************************************************************)
(* union_internal / union_leaders / shrink_slots / move_to                   *)
(***************************************************************************)
RECURSIVE UnionInternal(_, _, _), ShrinkSlots(_, _, _), FoldBroken(_, _, _), MoveNodes(_, _, _, _, _)

(* move_to: everything of class from.id goes to class to.id                 *)
MoveNodes(st, i, j, finv, cs) ==
  IF cs = << >> THEN st
  ELSE
    LET c   == Head(cs)
        fr  == Fresh(st, NPub(c) \ DOMAIN finv)         \* redundant slots: compose_fresh
        c2  == NRen(c, finv @@ fr.f)
        s1  == RemoveNode(fr.st, i, c)
        s2  == [s1 EXCEPT !.cls[j].nodes = @ \cup {c2},
                          !.pend = IF <<j, c2>> \in {<<q[1], q[2]>> : q \in Range(@)}
                                   THEN [k \in DOMAIN @ |-> IF <<@[k][1], @[k][2]>> = <<j, c2>> THEN <<j, c2, "full">> ELSE @[k]]
                                   ELSE Append(@, <<j, c2, "full">>)]
    IN MoveNodes(s2, i, j, finv, Tail(cs))

MoveTo(st, from, to) ==
  LET i    == from.id
      j    == to.id
      map  == Comp(to.m, Inv(from.m))             \* slots(j) -> slots(i)
      finv == Inv(map)                            \* slots(i) -> slots(j)
      dnew == AnMerge(st.cls[i].data, st.cls[j].data)            \* the join of both data; parents of j re-analysed if it changed
      s0   == IF dnew = st.cls[j].data THEN st ELSE TouchT([st EXCEPT !.cls[j].data = dnew], j, "only")
      s1   == [s0 EXCEPT !.uf[i] = [id |-> j, m |-> map]]
      s2   == MoveNodes(s1, i, j, finv, SetToSeq(s1.cls[i].nodes))
      moved == {Comp(Comp(map, p), finv) : p \in {q \in st.cls[i].grp : \A x \in Rng(map) : q[x] \in Rng(map)}}
      g2   == GClose(s2.cls[j].grp \cup moved)
      s3   == [s2 EXCEPT !.cls[j].grp = g2, !.cls[i].alive = FALSE, !.cls[i].nodes = {}]
      s4   == IF g2 # s2.cls[j].grp THEN Touch(s3, j) ELSE s3
  IN Touch(s4, i)

ClsSize(st, i) == Cardinality(st.cls[i].nodes)
               + Cardinality({p \in AllNodes(st) : i \in Refs(p[2])})

UnionLeaders(st, l, r) ==
  IF EqA(st, l, r) THEN st
  ELSE
    LET cap == Rng(l.m) \cap Rng(r.m) IN
    IF Rng(l.m) # cap THEN UnionInternal(ShrinkSlots(st, l, cap), l, r)
    ELSE IF Rng(r.m) # cap THEN UnionInternal(ShrinkSlots(st, r, cap), l, r)
    ELSE IF l.id = r.id THEN
      LET perm == Comp(r.m, Inv(l.m))
          g2   == GClose(st.cls[l.id].grp \cup {perm})
      IN Touch([st EXCEPT !.cls[l.id].grp = g2], l.id)
    ELSE IF ClsSize(st, l.id) <= ClsSize(st, r.id) THEN MoveTo(st, l, r) ELSE MoveTo(st, r, l)

UnionInternal(st, a, b) == UnionLeaders(st, FindA(st, a), FindA(st, b))

(* a symmetry that moves a remaining slot out of the remaining slots cannot be
   restricted: it shows that this slot is redundant too, and is re-asserted   *)
FoldBroken(st, i, ps) ==
  IF ps = << >> THEN st
  ELSE LET s == st.cls[i].slots
           l == [id |-> i, m |-> IdOn(s)]
           r == [id |-> i, m |-> [x \in s |-> Head(ps)[x]]]
       IN FoldBroken(UnionInternal(st, l, r), i, Tail(ps))

ShrinkSlots(st, a, cap) ==
  LET i      == a.id
      c      == st.cls[i]
      capi   == {x \in c.slots : a.m[x] \in cap}
      keep   == {p \in c.grp : \A x \in capi : p[x] \in capi}
      broken == c.grp \ keep
      s1     == [st EXCEPT !.cls[i].slots = capi,
                           !.cls[i].grp   = {Restr(p, capi) : p \in keep},
                           !.uf[i]        = [id |-> i, m |-> IdOn(capi)]]
  IN FoldBroken(Touch(s1, i), i, SetToSeq(broken))

(***************************************************************************)
(* rebuild: handle_pending, determine_self_symmetries                        *)
(***************************************************************************)
RECURSIVE ShrinkLoop(_, _, _), SelfSym(_, _, _)

(* the class may not have a slot its e-node does not have                    *)
ShrinkLoop(st, a0, c) ==
  LET n  == FindNode(st, c)
      ai == FindA(st, a0)
  IN IF Rng(ai.m) \subseteq NPub(n) THEN st
     ELSE ShrinkLoop(ShrinkSlots(st, ai, Rng(ai.m) \cap NPub(n)), a0, c)

(* determine_self_symmetries: a group variant of the stored node with the same
   weak shape is a symmetry of the class - unless it exchanges a class slot with
   a redundant one: then that slot is redundant as well, the class shrinks, and
   the variants are judged again (repair 4dcce54)                              *)
SelfSym(st, i, c) ==
  LET sl   == st.cls[i].slots
      vs   == {v \in Variants(st, c) : WeakShape(v) = WeakShape(c)}
      pm(v) == Restr(NameMap(c, v), sl)
      bad  == {v \in vs : Rng(pm(v)) # sl}
  IN IF bad # {} THEN
       LET v == CHOOSE w \in bad : TRUE
           s1 == UnionInternal(st, [id |-> i, m |-> IdOn(sl)], [id |-> i, m |-> pm(v)])
       IN SelfSym(s1, i, c)
     ELSE
       LET g2 == GClose(st.cls[i].grp \cup {pm(v) : v \in vs}) IN
       IF g2 = st.cls[i].grp THEN st ELSE Touch([st EXCEPT !.cls[i].grp = g2], i)

HandlePending(st, p) ==
  LET i  == p[1]
      c  == p[2]
      ty == p[3]
  IN IF ~(i \in Alive(st) /\ c \in st.cls[i].nodes) THEN st
     ELSE
       \* update_analysis runs while the e-node is still in its class: an e-node that refers to its own class and improves
       \* it queues ITSELF again
       LET sA == UpdateAnalysis(st, i, c) IN
       IF ty = "only" THEN sA
       ELSE
       LET req == {q \in Range(sA.pend) : <<q[1], q[2]>> = <<i, c>>}
           a0 == [id |-> i, m |-> IdOn(sA.cls[i].slots)]
           s1 == ShrinkLoop(RemoveNode(sA, i, c), a0, c)
           n  == FindNode(s1, c)
           ai == FindA(s1, a0)
           hs == Hits(s1, n)
       IN IF hs # {} THEN                                        \* upwards merging found a match
            UnionInternal(s1, ai, HitInvocation(s1, n, CHOOSE h \in hs : TRUE))
          ELSE
            LET g0 == Inv(ai.m)
                fr == Fresh(s1, NPub(n) \ DOMAIN g0)
                c2 == NRen(n, g0 @@ fr.f)
                s2 == [fr.st EXCEPT !.cls[ai.id].nodes = @ \cup {c2}]
                \* the entry the e-node queued for itself moves to the canonical spelling (repair 352017a; before it the
                \* stale entry made the implementation panic)
                \* an e-node that reaches its own class through a merged-away id is not among the usages UpdateAnalysis has
                \* queued: if it improved the class it is analysed again (repair of D25; without it the datum of a class with such
                \* a self-reference stays below the least fixpoint - this model, written after the code, had the same gap)
                improved == sA.cls[i].data # st.cls[i].data
                again == req # {} \/ (improved /\ ai.id \in Refs(c2))
                s3 == IF ~again \/ <<ai.id, c2>> \in PendKeys(s2) THEN s2
                      ELSE [s2 EXCEPT !.pend = Append(@, <<ai.id, c2, IF req # {} THEN (CHOOSE q \in req : TRUE)[3] ELSE "only">>)]
            IN SelfSym(s3, ai.id, c2)

RECURSIVE Rebuild(_)
Rebuild(st) ==
  IF st.pend = << >> THEN st
  ELSE LET k == IF Policy = "fifo" THEN 1 ELSE Len(st.pend)
           p == st.pend[k]
           s1 == [st EXCEPT !.pend = [q \in 1..(Len(@) - 1) |-> IF q < k THEN @[q] ELSE @[q + 1]]]
       IN Rebuild(HandlePending(s1, p))

(***************************************************************************)
(* public operations                                                         *)
(***************************************************************************)
(* add(enode): enode's children are invocations returned earlier             *)
AddNode(st, n0) ==
  LET n  == FindNode(st, n0)
      hs == Hits(st, n)
  IN IF hs # {} THEN [st |-> st, a |-> HitInvocation(st, n, CHOOSE h \in hs : TRUE)]
     ELSE
       LET fr == Fresh(st, NPub(n))
           i  == st.nid
           sl == Rng(fr.f)
           c  == NRen(n, fr.f)
           s1 == [fr.st EXCEPT !.cls = (i :> [alive |-> TRUE, slots |-> sl, nodes |-> {c}, grp |-> {IdOn(sl)},
                                                  data |-> AnMake(fr.st, c)]) @@ @,            \* alloc_eclass: datum of the first node
                               !.uf  = (i :> [id |-> i, m |-> IdOn(sl)]) @@ @,
                               !.pend = Append(@, <<i, c, "full">>),
                               !.nid = i + 1]
       IN [st |-> Rebuild(s1), a |-> [id |-> i, m |-> Inv(fr.f)]]

(* add_expr: children first; binders are refreshed (names >= FreshBase)       *)
RECURSIVE AddTerm(_, _), AddChildren(_, _, _, _)
AddChildren(st, t, k, acc) ==
  IF k > Len(t.ch) THEN [st |-> st, ch |-> acc]
  ELSE
    \* every binder POSITION gets its own fresh name; a name bound twice (Bind<Bind<..>>, the inner binder shadows the
    \* outer one) refers to its last binder
    LET r   == AddTerm(st, t.ch[k].t)
        tbd == t.ch[k].bd
        bd  == [i \in DOMAIN tbd |-> r.st.ns + i - 1]
        f   == [x \in Range(tbd) |-> bd[LastPos(tbd, x)]]
        st2 == [r.st EXCEPT !.ns = @ + Len(tbd)]
        a   == [id |-> r.a.id, m |-> [x \in DOMAIN r.a.m |-> Ap(f, r.a.m[x])]]
    IN AddChildren(st2, t, k + 1, Append(acc, [bd |-> bd, a |-> a]))
AddTerm(st, t) ==
  LET r == AddChildren(st, t, 1, << >>) IN
  AddNode(r.st, [op |-> t.op, sl |-> t.sl, ch |-> r.ch])

Union(st, a, b) == Rebuild(UnionInternal(st, a, b))

(***************************************************************************)
(* structural invariants of a quiescent state (src/egraph/check.rs)          *)
(***************************************************************************)
WellFormed(st) ==
  /\ st.pend = << >>
  /\ \A i \in Ids(st) \ Alive(st) : st.cls[i].nodes = {} /\ st.uf[i].id # i
  /\ \A i \in Alive(st) :
       /\ st.uf[i] = [id |-> i, m |-> IdOn(st.cls[i].slots)]
       /\ IdOn(st.cls[i].slots) \in st.cls[i].grp
       /\ \A p \in st.cls[i].grp : DOMAIN p = st.cls[i].slots /\ Rng(p) = st.cls[i].slots
       /\ GClose(st.cls[i].grp) = st.cls[i].grp
       /\ st.cls[i].nodes # {}
  /\ \A p \in AllNodes(st) :
       /\ IsCanon(st, p[2])                                   \* children are live leaders
       /\ st.cls[p[1]].slots \subseteq NPub(p[2])             \* no class slot the node lacks
  /\ \A p, q \in AllNodes(st) :                               \* congruence closed: shapes unique
       (p # q /\ p[2].op = q[2].op /\ Refs(p[2]) = Refs(q[2])) => ShapeKey(st, p[2]) \cap ShapeKey(st, q[2]) = {}
=============================================================================
