------------------------------- MODULE EMatch -------------------------------
(***************************************************************************)
(* Declarative e-matching over the congruence of SlottedCC (C04 / C05).     *)
(*                                                                         *)
(* WHAT ematch_all(pattern) has to return, as a set, in a state (lab, E):   *)
(* a pattern is a term whose leaves may be pattern variables "?a" "?b" "?c" *)
(* and whose slots are pattern slots (names 1..3).  A *ground match* is a   *)
(* pair (rho, sigma): rho an injective assignment of pool names to the      *)
(* pattern's slots (free and bound), sigma a function from the pattern's    *)
(* variables to classes (labels), such that some REPRESENTED term of the    *)
(* universe is the instance: at every pattern node the class holds a member *)
(* with the node's operator, slots and binder names whose children match    *)
(* the sub-patterns (the members of a class are exactly its e-nodes'        *)
(* spellings, see SlottedCC).  The same variable twice means the same       *)
(* class invocation twice.                                                  *)
(*                                                                         *)
(* The set is closed under the bijections of the pool, so only matches with *)
(* rho = identity on the pattern's FREE slots are computed and of those     *)
(* only the least of every orbit under the bijections that fix these names  *)
(* (Canonical) is emitted.  A match is *admissible* (slotted capture         *)
(* avoidance): a variable that occurs outside the scope of a pattern binder *)
(* is not bound to a class that depends on that binder's name - the         *)
(* implementation refreshes bound slots, so it can never report the         *)
(* shadowing spellings that the ground universe also contains.              *)
(*                                                                         *)
(* Conformance (harness/src/bin/cc_replay.rs: check_match_sets): every      *)
(* substitution ematch_all returns is grounded (slots -> pool names,        *)
(* injectively, pattern slots as above), its classes are mapped to labels   *)
(* through lookup of the universe terms, the orbit-least form is taken and  *)
(* the two sets are compared: impl \subseteq spec is C05 (reported matches  *)
(* are real), spec \subseteq impl is C04 (every represented instance is      *)
(* found).  Both are judged only in states without redundant slots: that is *)
(* the scope of C04, and only there does the bounded universe spell every   *)
(* match (a class with a redundant slot has spellings that carry a name it  *)
(* does not depend on, so a pattern with two binders can run out of pool    *)
(* names in the specification although the real match needs fewer).         *)
(***************************************************************************)
EXTENDS SlottedCC

CONSTANTS Patterns      \* sequence of patterns (terms with pattern-variable leaves)

PV == <<"?a", "?b", "?c">>

RECURSIVE PVarsOf(_)
PVarsOf(p) == IF IsPVar(p) THEN {p.op} ELSE UNION {PVarsOf(p.ch[k].t) : k \in DOMAIN p.ch}

(* variables with an occurrence that is NOT in the scope of a binder of name x *)
RECURSIVE OutOfScope(_, _)
OutOfScope(p, x) ==
  IF IsPVar(p) THEN {p.op}
  ELSE UNION {IF x \in Range(p.ch[k].bd) THEN {} ELSE OutOfScope(p.ch[k].t, x) : k \in DOMAIN p.ch}

PFree(p)  == FV(p)
PBound(p) == Names(p) \ FV(p)

(* slot assignments: identity on the free pattern slots, injective            *)
RhoSet(p) ==
  LET fr == PFree(p)
      bd == PBound(p)
  IN {r \in [fr \cup bd -> Pool] : /\ \A x \in fr : r[x] = x
                                   /\ \A x, y \in fr \cup bd : r[x] = r[y] => x = y}

Compatible(s, m) == \A v \in (DOMAIN s) \cap (DOMAIN m) : s[v] = m[v]

(* MAt(lab, mem, gp, i): substitutions under which the ground pattern gp has an
   instance in the class of universe term i                                     *)
RECURSIVE MAt(_, _, _, _), JoinCh(_, _, _, _, _, _)
MAt(lab, mem, gp, i) ==
  IF IsPVar(gp) THEN {(gp.op :> lab[i])}
  ELSE
    LET hd == <<gp.op, gp.sl, [k \in DOMAIN gp.ch |-> gp.ch[k].bd]>>
        js == {j \in mem[lab[i]] : head[j] = hd}
    IN UNION {JoinCh(lab, mem, gp, j, 1, {<< >>}) : j \in js}
JoinCh(lab, mem, gp, j, k, acc) ==
  IF k > Len(gp.ch) \/ acc = {} THEN acc
  ELSE
    LET ms   == MAt(lab, mem, gp.ch[k].t, chidx[j][k])
        acc2 == {q[1] @@ q[2] : q \in {r \in acc \X ms : Compatible(r[1], r[2])}}
    IN JoinCh(lab, mem, gp, j, k + 1, acc2)

(* names a class depends on (its non-redundant parameters, as pool names)       *)
ClassNames(lab, l) == NonRed(lab, us[l])

Admissible(lab, p, r, s) ==
  \A x \in PBound(p) : \A v \in OutOfScope(p, x) \cap DOMAIN s : r[x] \notin ClassNames(lab, s[v])

AllMatches(lab, E, p) ==
  LET mem == Members(lab)
      rep == RepLab(lab, E)
  IN UNION {LET gp == Ren(p, r) IN
            {s \in UNION {MAt(lab, mem, gp, l) : l \in rep} : Admissible(lab, p, r, s)} : r \in RhoSet(p)}

(* orbit-least representatives under the bijections that fix the free pattern slots *)
pidx == [b \in Bij |-> [i \in U |-> idx[Ren(us[i], b)]]]
Tup(s) == [k \in 1..3 |-> IF PV[k] \in DOMAIN s THEN s[PV[k]] ELSE 0]
TupLeq(t, u) ==
  \/ t[1] < u[1]
  \/ t[1] = u[1] /\ t[2] < u[2]
  \/ t[1] = u[1] /\ t[2] = u[2] /\ t[3] <= u[3]
Act(lab, b, t) == [k \in 1..3 |-> IF t[k] = 0 THEN 0 ELSE lab[pidx[b][t[k]]]]
Canonical(lab, p, t) ==
  \A b \in {c \in Bij : \A x \in PFree(p) : c[x] = x} : TupLeq(t, Act(lab, b, t))

MatchSet(lab, E, p) == {t \in {Tup(s) : s \in AllMatches(lab, E, p)} : Canonical(lab, p, t)}

(* the scope of C04: no represented class has a redundant parameter             *)
(* (a term that uses all N names gets no redundancy verdict - no spare name -, so such states are out as well)     *)
NoRedundancy(lab, E) ==
  \A i \in U : Represented(lab, E, i) => FV(us[i]) # Pool /\ NonRed(lab, us[i]) = FV(us[i])

MatchObs(lab, E) == [q \in DOMAIN Patterns |-> SetToSeq(MatchSet(lab, E, Patterns[q]))]

(***************************************************************************)
(* properties of the specification itself                                   *)
(***************************************************************************)
(* every match is an instance: instantiating the pattern with ANY members of *)
(* the classes gives a term of the root's class, and that class is            *)
(* represented (so lookup succeeds without inserting)                         *)
MatchesAreInstances(lab, E) ==
  \A q \in DOMAIN Patterns :
    LET p == Patterns[q] IN
    \A r \in RhoSet(p) :
      \A l \in RepLab(lab, E) :
        \A s \in MAt(lab, Members(lab), Ren(p, r), l) :
          \A v \in DOMAIN s : s[v] \in RepLab(lab, E)
=============================================================================
