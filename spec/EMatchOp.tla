------------------------------ MODULE EMatchOp ------------------------------
(***************************************************************************)
(* Operational, implementation-shaped model of e-matching                   *)
(* (src/rewrite/ematch.rs) on a state of the operational e-graph model      *)
(* EGraphOp.tla.  One operator per function of the code:                    *)
(*                                                                         *)
(*   EnodesApplied   EGraph::enodes_applied (the e-nodes of a class as seen  *)
(*                   through an invocation: private names refreshed, class   *)
(*                   slots renamed by the invocation's arguments)            *)
(*   EmatchImpl      ematch_impl  (variable: bind / compare with eq;         *)
(*                   node: every e-node of the class with the operator)      *)
(*   EmatchNode      ematch_node  (every group variant of the e-node; the    *)
(*                   nullified node must have the pattern node's weak shape; *)
(*                   the slot occurrences are zipped into the partial slot   *)
(*                   map, which has to stay a bijection; then the children,  *)
(*                   left to right, each on every state the previous left)   *)
(*   FinalSubst      final_subst  (e-graph names -> pattern names; names the *)
(*                   pattern does not cover stay as they are - fresh)        *)
(*   EmatchAll       ematch_all   (every live class, identity invocation)    *)
(*                                                                         *)
(* Where EMatch.tla says WHAT the set of matches is (over the congruence of *)
(* SlottedCC), this module says HOW the library computes it.  MC_EGraphOp    *)
(* (MatchRefines) checks on every reachable quiescent state of EGraphOp     *)
(* that the two agree: every substitution computed here, grounded in the    *)
(* name pool, is a member of the declarative match set, and every member of *)
(* the declarative match set is computed here.                               *)
(*                                                                         *)
(* Named deviations from the code:                                          *)
(*  - get_group_compatible_weak_variants keeps ONE variant per weak shape;   *)
(*    here every variant is tried (variants of equal weak shape differ by a  *)
(*    symmetry of the children, the bindings they produce are eq)            *)
(*  - fresh names are drawn from a counter carried in the matching state     *)
(*  - results are a set, not a list (duplicates are not modelled)            *)
(***************************************************************************)
EXTENDS EGraphOp

MFreshBase == 500000        \* names private to a matching run

(* match state: [sub : variable -> invocation (e-graph names),               *)
(*               sm  : e-graph name -> pattern name (partial bijection),      *)
(*               fc  : next fresh name]                                       *)
MInit == [sub |-> << >>, sm |-> << >>, fc |-> MFreshBase]

AllNamesOf(c) == Range(Occ(c))

(* enodes_applied(a): set of [n, fc]                                          *)
EnodesApplied(st, a, fc) ==
  LET cl == st.cls[a.id] IN
  {LET priv == AllNamesOf(c) \ cl.slots          \* redundant public names and binder names of the stored e-node
       ps   == KSort(priv)
       f1   == [x \in priv |-> fc + PosIn(ps, x) - 1]
       miss == cl.slots \ DOMAIN a.m             \* class slots the invocation does not mention (none for canonical ones)
       ms   == KSort(miss)
       f2   == [x \in miss |-> fc + Cardinality(priv) + PosIn(ms, x) - 1]
   IN [n |-> NRen(c, f1 @@ f2 @@ a.m), fc |-> fc + Cardinality(priv) + Cardinality(miss)] : c \in cl.nodes}

(* the slot occurrences of a node whose children are nullified                *)
ClearOcc(n) == n.sl \o FlattenSeq([k \in DOMAIN n.ch |-> n.ch[k].bd])
SameLayout(pn, n) ==
  /\ pn.op = n.op /\ Len(pn.sl) = Len(n.sl) /\ Len(pn.ch) = Len(n.ch)
  /\ \A k \in DOMAIN pn.ch : Len(pn.ch[k].bd) = Len(n.ch[k].bd)

RECURSIVE EmatchImpl(_, _, _, _), EmatchNode(_, _, _, _), EmatchCh(_, _, _, _, _)

EmatchImpl(st, p, ms, a) ==
  IF IsPVar(p) THEN
    IF p.op \in DOMAIN ms.sub
    THEN IF EqA(st, a, ms.sub[p.op]) THEN {ms} ELSE {}
    ELSE {[ms EXCEPT !.sub = (p.op :> a) @@ @]}
  ELSE
    UNION {IF SameLayout(p, e.n) THEN EmatchNode(st, p, [ms EXCEPT !.fc = e.fc], e.n) ELSE {}
             : e \in EnodesApplied(st, a, ms.fc)}

EmatchNode(st, p, ms, nn) ==
  UNION {
    LET xs == ClearOcc(n2)
        ys == ClearOcc(p)
        same == \A i, j \in DOMAIN xs : (xs[i] = xs[j]) <=> (ys[i] = ys[j])          \* equal weak shapes
        ok == /\ same
              /\ \A i \in DOMAIN xs :
                   /\ xs[i] \in DOMAIN ms.sm => ms.sm[xs[i]] = ys[i]                 \* try_insert_compatible_slotmap_bij
                   /\ \A x \in DOMAIN ms.sm : ms.sm[x] = ys[i] => x = xs[i]
    IN IF ~ok THEN {}
       ELSE LET sm2 == [x \in Range(xs) |-> ys[PosIn(xs, x)]] @@ ms.sm
            IN EmatchCh(st, p, n2, 1, {[ms EXCEPT !.sm = sm2]})
    : n2 \in Variants(st, nn)}

EmatchCh(st, p, n2, k, acc) ==
  IF k > Len(p.ch) \/ acc = {} THEN acc
  ELSE EmatchCh(st, p, n2, k + 1, UNION {EmatchImpl(st, p.ch[k].t, m, n2.ch[k].a) : m \in acc})

(* final_subst: names of the e-graph side become pattern names; what the pattern does not cover keeps its
   (unique, >= FreshBase) name                                                                        *)
FinalSubst(ms) ==
  [v \in DOMAIN ms.sub |->
     [id |-> ms.sub[v].id, m |-> [x \in DOMAIN ms.sub[v].m |-> Ap(ms.sm, ms.sub[v].m[x])]]]

EmatchAll(st, p) ==
  UNION {{FinalSubst(ms) : ms \in EmatchImpl(st, p, MInit, [id |-> i, m |-> IdOn(st.cls[i].slots)])} : i \in Alive(st)}
=============================================================================
