----------------------------- MODULE ExtractOp -----------------------------
(***************************************************************************)
(* Operational model of Extractor::new (src/extract/mod.rs): a Dijkstra-    *)
(* style work list over e-nodes.  The e-graph is abstracted to what the     *)
(* algorithm looks at: classes 1..NC and e-nodes [cls, w, ch] (class that   *)
(* holds the node, weight of its operator, sequence of child classes);      *)
(* slots play no role for costs.                                            *)
(*   Init      every leaf e-node is queued with its cost                    *)
(*   Pop       take a cheapest queue entry (ties: any - TLC explores all);  *)
(*             if its class has no entry yet, it becomes the class's best   *)
(*             node, and every usage of the class whose children all have   *)
(*             entries - and whose own class has none - is queued           *)
(* Checked for EVERY e-graph with at most MaxNodes e-nodes over NC classes  *)
(* (cycles, unreachable classes, several nodes per class) and both cost     *)
(* functions of the harness (weighted size: w + sum, weighted depth:        *)
(* w + max): when the queue is empty the table holds exactly the classes    *)
(* that contain a finite term, each with the least-fixpoint cost            *)
(* (SlottedCC.MinCost is the same fixpoint over the real structure).        *)
(***************************************************************************)
EXTENDS Naturals, Sequences, FiniteSets, FiniteSetsExt, TLC

CONSTANTS NC, MaxNodes, Weights, CostKind     \* CostKind: "size" | "depth"

Cls == 1..NC
ChSeqs == {<< >>} \cup {<<a>> : a \in Cls} \cup {<<a, b>> : a \in Cls, b \in Cls}
AllNodes == [cls : Cls, w : Weights, ch : ChSeqs]

VARIABLES nodes,   \* the e-graph (constant during a behaviour)
          best,    \* [class -> cost] partial: the extraction table
          queue    \* set of <<node, cost>> (a node is queued at most once per cost)

vars == <<nodes, best, queue>>

RECURSIVE SumSeq(_), MaxSeq(_)
SumSeq(s) == IF s = << >> THEN 0 ELSE Head(s) + SumSeq(Tail(s))
MaxSeq(s) == IF s = << >> THEN 0 ELSE LET m == MaxSeq(Tail(s)) IN IF Head(s) > m THEN Head(s) ELSE m
Combine(w, cs) == IF CostKind = "size" THEN w + SumSeq(cs) ELSE w + MaxSeq(cs)
CostOf(n, tab) == Combine(n.w, [k \in DOMAIN n.ch |-> tab[n.ch[k]]])
Ready(n, tab)  == \A k \in DOMAIN n.ch : n.ch[k] \in DOMAIN tab

(* all e-graphs with at most MaxNodes e-nodes (MaxNodes <= 4; built by hand: kSubset is limited to 62 elements) *)
Graphs == IF MaxNodes = 2 THEN {{a, b} : a, b \in AllNodes}
          ELSE IF MaxNodes = 3 THEN {{a, b, c} : a, b, c \in AllNodes}
          ELSE {{a, b, c, d} : a, b, c, d \in AllNodes}
Init == /\ nodes \in Graphs \cup {{}}
        /\ best = << >>
        /\ queue = {<<n, CostOf(n, << >>)>> : n \in {m \in nodes : m.ch = << >>}}

Pop(e) ==
  /\ e \in queue /\ \A f \in queue : e[2] <= f[2]
  /\ UNCHANGED nodes
  /\ LET n == e[1] IN
     IF n.cls \in DOMAIN best THEN queue' = queue \ {e} /\ UNCHANGED best
     ELSE LET b2 == (n.cls :> e[2]) @@ best
              us == {x \in nodes : (\E k \in DOMAIN x.ch : x.ch[k] = n.cls) /\ Ready(x, b2) /\ x.cls \notin DOMAIN b2}
          IN /\ best' = b2
             /\ queue' = (queue \ {e}) \cup {<<x, CostOf(x, b2)>> : x \in us}

Next == \E e \in queue : Pop(e)
Spec == Init /\ [][Next]_vars /\ WF_vars(Next)

(* the reference: least fixpoint of  cost(class) = min over its nodes  (Bellman-Ford rounds) *)
Inf == 1000
Round(tab) == [c \in Cls |->
   LET cands == {CostOf(n, tab) : n \in {m \in nodes : m.cls = c /\ \A k \in DOMAIN m.ch : tab[m.ch[k]] < Inf}}
   IN IF cands = {} THEN tab[c]
      ELSE LET m == CHOOSE x \in cands : \A y \in cands : x <= y IN IF m < tab[c] THEN m ELSE tab[c]]
RECURSIVE Fix(_)
Fix(tab) == LET t2 == Round(tab) IN IF t2 = tab THEN tab ELSE Fix(t2)
MinCostRef == Fix([c \in Cls |-> Inf])

Done == queue = {}
Correct == Done => /\ DOMAIN best = {c \in Cls : MinCostRef[c] < Inf}      \* extraction succeeds exactly for classes with a finite term
                   /\ \A c \in DOMAIN best : best[c] = MinCostRef[c]       \* and finds the cheapest
(* entries are final when they are made (the Dijkstra invariant) *)
Settled == \A c \in DOMAIN best : best[c] = MinCostRef[c]
Terminates == <>Done
=============================================================================
