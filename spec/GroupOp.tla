------------------------------ MODULE GroupOp ------------------------------
(***************************************************************************)
(* Operational model of src/group/mod.rs: the stabiliser chain              *)
(* (Schreier-Sims structure) that represents a class's symmetry group.      *)
(*   chain = sequence of levels [stab, ot]: stab the point stabilised at    *)
(*           this level, ot the orbit tree (point x of the orbit |-> a      *)
(*           permutation that maps stab to x)                               *)
(*   Build(gens)      Group::new: lowest moved point, build_ot,              *)
(*                    schreiers_lemma, recursion                            *)
(*   Contains, AllPerms, Count, Generators, AddSet, OrbitOf                 *)
(* MC_GroupOp checks that this structure REFINES the brute-force reference  *)
(* Group.tla (variable G = generated subgroup) along every sequence of      *)
(* add_set calls: same elements, same order, same membership, same orbits,  *)
(* and that the generators read back from the chain (what add_set and       *)
(* shrink_slots rebuild from) still generate the whole group.               *)
(* Deviation: build_ot / HashSet iteration order is arbitrary in the code;  *)
(* here the next orbit-tree entry is chosen with CHOOSE.                     *)
(***************************************************************************)
EXTENDS Group

VARIABLE chain

Moved(gens) == {x \in Pts : \E g \in gens : g[x] # x}
Lowest(S)   == CHOOSE x \in S : \A y \in S : x <= y

(* build_ot: close {stab |-> Id} under right multiplication with the generators *)
RECURSIVE BuildOT(_, _, _)
BuildOT(stab, gens, ot) ==
  LET cand == {Compose(ot[x], g) : x \in DOMAIN ot, g \in gens}
      new  == {c \in cand : c[stab] \notin DOMAIN ot}
  IN IF new = {} THEN ot
     ELSE LET c == CHOOSE c \in new : TRUE IN
          BuildOT(stab, gens, (c[stab] :> c) @@ ot)

(* schreiers_lemma: generators of the stabiliser of stab *)
Schreier(stab, ot, gens) ==
  {LET rs == Compose(ot[x], s) IN Compose(rs, Inv(ot[rs[stab]])) : x \in DOMAIN ot, s \in gens}

RECURSIVE Build(_)
Build(gens) ==
  IF Moved(gens) = {} THEN << >>
  ELSE LET stab == Lowest(Moved(gens))
           ot   == BuildOT(stab, gens, (stab :> Id))
       IN <<[stab |-> stab, ot |-> ot]>> \o Build(Schreier(stab, ot, gens))

RECURSIVE Contains(_, _)
Contains(ch, p) ==
  IF ch = << >> THEN p = Id
  ELSE LET n == ch[1] IN
       /\ p[n.stab] \in DOMAIN n.ot
       /\ Contains(Tail(ch), Compose(p, Inv(n.ot[p[n.stab]])))

RECURSIVE AllPerms(_)
AllPerms(ch) ==
  IF ch = << >> THEN {Id}
  ELSE {Compose(r, ch[1].ot[x]) : r \in AllPerms(Tail(ch)), x \in DOMAIN ch[1].ot}

RECURSIVE Count(_)
Count(ch) == IF ch = << >> THEN 1 ELSE Cardinality(DOMAIN ch[1].ot) * Count(Tail(ch))

Generators(ch) == UNION {{ch[k].ot[x] : x \in DOMAIN ch[k].ot} : k \in DOMAIN ch} \ {Id}
OrbitOf(ch, s) == DOMAIN BuildOT(s, Generators(ch), (s :> Id))

(* add_set: only permutations that are not members yet; the chain is rebuilt from its own
   generators plus the new ones                                                          *)
ChainAddSet(ch, P) ==
  LET new == {p \in P : ~Contains(ch, p)} IN
  IF new = {} THEN ch ELSE Build(Generators(ch) \cup new)

OpInit == Init /\ chain = << >>
OpAddSet(P) == AddSet(P) /\ chain' = ChainAddSet(chain, P)
OpNext == \E P \in GenSets : OpAddSet(P)
OpSpec == OpInit /\ [][OpNext]_<<G, chain>>

(* refinement: the chain denotes exactly the reference subgroup *)
Refines ==
  /\ AllPerms(chain) = G
  /\ Count(chain) = Cardinality(G)
  /\ \A p \in Sym : Contains(chain, p) <=> p \in G
  /\ \A x \in Pts : OrbitOf(chain, x) = Orbit(G, x)
  /\ Generated(Generators(chain)) = G                    \* nothing is lost when the chain is rebuilt
(* shape of the structure: strictly increasing stabilised points, orbit trees map stab correctly *)
WellFormedChain ==
  /\ \A k \in DOMAIN chain : \A x \in DOMAIN chain[k].ot : chain[k].ot[x][chain[k].stab] = x
  /\ \A k \in DOMAIN chain : \A j \in 1..(k - 1) : \A x \in DOMAIN chain[k].ot : chain[k].ot[x][chain[j].stab] = chain[j].stab
  /\ \A k \in DOMAIN chain : Cardinality(DOMAIN chain[k].ot) > 1
(* the growth flag add_set returns *)
GrewIffNew == [][(chain' # chain) <=> (G' # G)]_<<G, chain>>
=============================================================================
