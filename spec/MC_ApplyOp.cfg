CONSTANTS
  OpTermPool <- MCOpTermPool
  OpEqPool <- MCOpEqPool
  OpInsBase <- MCOpInsBase
  OpMaxEqs <- MCOpMaxEqs
  Expected <- MCExpected
  OpEager <- MCOpEager
  Policy <- MCPolicy
  Analysis <- MCAnalysis
  OpPatterns <- MCOpPatterns
  OpN <- MCOpN
  OpRule <- MCOpRule
  OpInstances <- MCOpInstances
INIT Init
NEXT Next
INVARIANTS Refines HandlesValid Fires
CHECK_DEADLOCK FALSE
