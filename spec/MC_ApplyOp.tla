----------------------------- MODULE MC_ApplyOp -----------------------------
(* C04 at design level: over a fire universe (universes/F_*.json: one rule, planted instances, balanced alias unions)  *)
(* every reachable quiescent state of the operational model, after ONE ApplyRewrites call with the rule, represents    *)
(* the right side of every instance whose left side the declarative specification (MC_Fire / SlottedCC: Represented)   *)
(* calls represented, equal to the left side.  States in which the specification derives a redundant slot are outside  *)
(* the documented scope (Exp.scope).  The root module is generated (bin/lib/egop.py: run_apply).                         *)
EXTENDS MC_EGraphOp

CONSTANTS OpRule,        \* [l |-> pattern, r |-> pattern]
          OpInstances    \* Seq([l |-> pool index, r |-> pool index])

Fires ==
  OpEager \/ ~Exp.scope \/
  LET post == ApplyRewrites(st, <<OpRule>>)
      bad  == {j \in DOMAIN OpInstances :
                 /\ Exp.rep[OpInstances[j].l]
                 /\ LET a == AddTerm(post, OpTermPool[OpInstances[j].l])
                        b == AddTerm(a.st, OpTermPool[OpInstances[j].r])
                    IN ~(a.st.cls = post.cls /\ b.st.cls = post.cls /\ EqA(post, a.a, b.a))}
  IN /\ IF bad = {} THEN TRUE ELSE Say("a represented instance of the rule's left side did not fire in the operational model", SetToSeq(bad))
     /\ IF WellFormed(post) THEN TRUE ELSE Say("structural invariants violated after ApplyRewrites", << >>)
=============================================================================
