CONSTANTS
  N <- MCN
  TermPool <- MCTermPool
  EqPool <- MCEqPool
  MaxEqs <- MCMaxEqs
  InsBase <- MCInsBase
  Patterns <- MCPatterns
INIT Init
NEXT Next
INVARIANTS TypeOK Normal IncrementalIsBatch ContainsSeeds Congruent Equivariant Emit
PROPERTY Monotone
CHECK_DEADLOCK FALSE
