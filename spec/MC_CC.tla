------------------------------- MODULE MC_CC -------------------------------
(* Observation emitter for bounded instances of SlottedCC.  The root module  *)
(* of a run is a GENERATED module (bin/lib/common.py: gen_mc_module) that     *)
(* EXTENDS this one and defines MCN, MCTermPool, MCEqPool, MCMaxEqs,          *)
(* MCInsBase as TLA+ literals from a universe file (universes/*.json).        *)
(* (Reading the JSON from inside TLC re-opens the file on every reference     *)
(* during constant processing - 12 859 times for U1 - and runs out of file    *)
(* descriptors, hence the generated literals.)                                *)
(* Emits one UNIVERSE line (the ground universe, in index order) and one      *)
(* REPLAY line per distinct state (the complete expected observation).        *)
EXTENDS EMatch, Json

Obs ==
  [key   |-> SetToSortSeq(eqs, <),
   lab   |-> [i \in U |-> ClassOf(part, eqs, i)],
   plab  |-> [ti \in DOMAIN TermPool |-> part[idx[TermPool[ti]]]],   \* raw class of every pool term (inserted or not)
   ncls  |-> NumClasses(part, eqs),
   slots |-> [ti \in DOMAIN TermPool |-> SetToSortSeq(NonRed(part, TermPool[ti]), <)],
   syms  |-> [ti \in DOMAIN TermPool |-> Cardinality(Syms(part, TermPool[ti]))],
   cost  |-> [c \in 1..Len(CostNames) |->
               LET mc == MinCost(CostNames[c], part) IN
               [i \in U |-> IF Represented(part, eqs, i) THEN mc[part[i]] ELSE 0]],
   \* leaf-operator analysis (join = union), per class label (empty for indices that are not labels)
   leaf  |-> LET lo == LeafOps(part) IN [i \in U |-> IF part[i] = i /\ Represented(part, eqs, i) THEN SetToSeq(lo[i]) ELSE << >>],
   pleaf |-> LET lo == LeafOps(part) IN [ti \in DOMAIN TermPool |-> SetToSeq(lo[part[idx[TermPool[ti]]]])],
   psize |-> LET mc == MinCost("astsize", part) IN [ti \in DOMAIN TermPool |-> mc[part[idx[TermPool[ti]]]]],
   \* expected e-matching results (EMatch.tla); empty pattern pool = not asked for
   mt    |-> MatchObs(part, eqs),
   nored |-> IF Patterns = << >> THEN TRUE ELSE NoRedundancy(part, eqs)]

ASSUME PrintT("UNIVERSE " \o ToJson([n |-> n, N |-> N, us |-> us]))

Emit == PrintT("REPLAY " \o ToJson(Obs))

=============================================================================
