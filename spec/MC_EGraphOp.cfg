CONSTANTS
  OpTermPool <- MCOpTermPool
  OpEqPool <- MCOpEqPool
  OpInsBase <- MCOpInsBase
  OpMaxEqs <- MCOpMaxEqs
  Expected <- MCExpected
  OpEager <- MCOpEager
  Policy <- MCPolicy
  Analysis <- MCAnalysis
INIT Init
NEXT Next
INVARIANTS Refines HandlesValid
CHECK_DEADLOCK FALSE
