CONSTANTS
  OpTermPool <- MCOpTermPool
  OpEqPool <- MCOpEqPool
  OpInsBase <- MCOpInsBase
  OpMaxEqs <- MCOpMaxEqs
  Expected <- MCExpected
  OpEager <- MCOpEager
  Policy <- MCPolicy
  Analysis <- MCAnalysis
  OpPatterns <- MCOpPatterns
  OpN <- MCOpN
INIT Init
NEXT Next
INVARIANTS Refines HandlesValid MatchRefines
CHECK_DEADLOCK FALSE
