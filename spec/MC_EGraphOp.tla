---------------------------- MODULE MC_EGraphOp ----------------------------
(* Refinement check: the operational model EGraphOp computes, for every set   *)
(* of asserted equations and every order of asserting them, exactly the       *)
(* congruence of SlottedCC.  The root module is GENERATED (bin/lib/cc.py:      *)
(* egraphop_check) and defines, as literals,                                   *)
(*   OpTermPool, OpEqPool, OpInsBase, OpMaxEqs   the universe                  *)
(*   Expected    one record per SlottedCC state (from the REPLAY table of the  *)
(*               MC_CC run over the same universe): key, and per pool term its *)
(*               class label, non-redundant names and number of symmetries     *)
(*               (pleaf / psize: the analysis data LeafOps / MinCost(astsize)) *)
(*   OpPolicy ("fifo"/"lifo"), OpEager (insert the whole pool up front, or     *)
(*               only the sides of the asserted equations)                     *)
EXTENDS ApplyOp, Json

CONSTANTS OpTermPool, OpEqPool, OpInsBase, OpMaxEqs, Expected, OpEager,
          OpPatterns,   \* pattern pool (terms with pattern-variable leaves) for MatchRefines; << >> = not asked for
          OpN           \* size of the name pool of the SlottedCC run the Expected records come from

VARIABLES st, hd, key      \* model state, handle per inserted pool term, asserted equations

RECURSIVE InsertAll(_, _, _)
InsertAll(s, h, tis) ==           \* insert the pool terms tis (a sequence of indices) not yet inserted
  IF tis = << >> THEN [st |-> s, hd |-> h]
  ELSE IF Head(tis) \in DOMAIN h THEN InsertAll(s, h, Tail(tis))
  ELSE LET r == AddTerm(s, OpTermPool[Head(tis)]) IN
       InsertAll(r.st, (Head(tis) :> r.a) @@ h, Tail(tis))

AllTis == [i \in 1..Len(OpTermPool) |-> i]
Init == /\ key = {}
        /\ LET r == InsertAll(Empty, << >>, IF OpEager THEN AllTis ELSE SetToSortSeq(OpInsBase, <)) IN
           st = r.st /\ hd = r.hd

ApplyEq(e) ==
  /\ e \notin key /\ Cardinality(key) < OpMaxEqs
  /\ LET r == InsertAll(st, hd, <<OpEqPool[e][1], OpEqPool[e][2]>>) IN
     /\ st' = Union(r.st, r.hd[OpEqPool[e][1]], r.hd[OpEqPool[e][2]])
     /\ hd' = r.hd
  /\ key' = key \cup {e}
Next == \E e \in DOMAIN OpEqPool : ApplyEq(e)
Spec == Init /\ [][Next]_<<st, hd, key>>

Exp == CHOOSE r \in Expected : r.key = SetToSortSeq(key, <)
Say(tag, x) == PrintT("OPBAD " \o ToJson([what |-> tag, key |-> SetToSortSeq(key, <), detail |-> x]))

Refines ==
  LET o  == InsertAll(st, hd, AllTis)
      s  == o.st
      h  == o.hd
      T  == DOMAIN OpTermPool
      eqbad == {p \in T \X T : EqA(s, h[p[1]], h[p[2]]) # (Exp.lab[p[1]] = Exp.lab[p[2]])}
      slbad == {t \in T : Rng(FindA(s, h[t]).m) # Range(Exp.slots[t])}
      sybad == {t \in T : Cardinality(s.cls[FindA(s, h[t]).id].grp) # Exp.syms[t]}
  IN /\ IF eqbad = {} THEN TRUE ELSE Say("equalities differ from the congruence", SetToSeq(eqbad))
     /\ IF slbad = {} THEN TRUE ELSE Say("slot sets differ", SetToSeq(slbad))
     /\ IF sybad = {} THEN TRUE ELSE Say("symmetry groups differ", SetToSeq(sybad))
     /\ IF Analysis = "none" THEN TRUE
        ELSE LET dbad == {t \in T : s.cls[FindA(s, h[t]).id].data #
                                       (IF Analysis = "leaves" THEN Range(Exp.pleaf[t]) ELSE Exp.psize[t])}
             IN IF dbad = {} THEN TRUE ELSE Say("analysis data are not the least fixpoint of make/merge", SetToSeq(dbad))
     /\ IF WellFormed(s) THEN TRUE ELSE Say("structural invariants violated", << >>)
     /\ IF WellFormed(st) THEN TRUE ELSE Say("structural invariants violated before observing", << >>)

(***************************************************************************)
(* MatchRefines: the operational e-matcher EMatchOp computes exactly the     *)
(* declarative match sets of EMatch.tla.  Exp.mtt[q] = the orbit-least ground *)
(* matches of pattern q as tuples of universe TERMS (class representatives;   *)
(* op "none" = variable not in the pattern), Exp.nored = the state is in the  *)
(* scope of the comparison (no redundant slots, DESIGN 3.6).  An operational  *)
(* match is grounded by every injective assignment of pool names to its names *)
(* and to the pattern's bound slots that fixes the pattern's free slots; a    *)
(* match that needs more names than the pool has makes the completeness       *)
(* verdict of its pattern void, classes with OpN parameters get no verdict    *)
(* (no spare name) - the same rules as the conformance check of the real      *)
(* ematch_all (cc_replay: check_match_sets).                                   *)
(***************************************************************************)
PVs == <<"?a", "?b", "?c">>
MPool == 1..OpN
MatchRefinesAt(s, q) ==
  LET p    == OpPatterns[q]
      pf   == FV(p)
      pb   == Names(p) \ pf
      mt   == Range(Exp.mtt[q])
      ets  == UNION {{t[k] : k \in {j \in 1..3 : t[j].op # "none"}} : t \in mt}
      ho   == TLCEval([tt \in ets |-> AddTerm(s, tt)])
      hu   == TLCEval([tt \in ets |-> FindA(s, ho[tt].a)])
      repr == \A tt \in ets : ho[tt].st.cls = s.cls
      opm  == TLCEval(EmatchAll(s, p))
      nms(sg) == pf \cup pb \cup UNION {Rng(sg[v].m) : v \in DOMAIN sg}
      grd(sg) == Cardinality(nms(sg)) <= OpN
      G(sg)   == {f \in [nms(sg) -> MPool] : (\A x \in pf : f[x] = x) /\ (\A x, y \in nms(sg) : f[x] = f[y] => x = y)}
      big(sg) == \E v \in DOMAIN sg : Cardinality(Rng(FindA(s, sg[v]).m)) = OpN
      bigT(t) == \E k \in 1..3 : t[k].op # "none" /\ FV(t[k]) = MPool
      vi(v)   == CHOOSE k \in 1..3 : PVs[k] = v
      ids(sg, t) == \A v \in DOMAIN sg : t[vi(v)].op # "none" /\ hu[t[vi(v)]].id = FindA(s, sg[v]).id
      R(sg, f, t) == \A v \in DOMAIN sg :
                       EqA(s, [id |-> sg[v].id, m |-> [x \in DOMAIN sg[v].m |-> f[sg[v].m[x]]]], hu[t[vi(v)]])
      unsound == {sg \in opm : grd(sg) /\ ~big(sg) /\ ~\E t \in mt : ids(sg, t) /\ \E f \in G(sg) : R(sg, f, t)}
      void    == \E sg \in opm : ~grd(sg)
      missed  == IF void THEN {} ELSE {t \in mt : ~bigT(t) /\ ~\E sg \in opm : ids(sg, t) /\ \E f \in G(sg) : R(sg, f, t)}
  IN /\ IF repr THEN TRUE ELSE Say("an expected match names a term that is not represented", q)
     /\ IF unsound = {} THEN TRUE ELSE Say("the operational e-matcher reports a match that is not in the declarative match set", <<q, SetToSeq(unsound)>>)
     /\ IF missed = {} THEN TRUE ELSE Say("the operational e-matcher misses a member of the declarative match set", <<q, SetToSeq(missed)>>)

MatchRefines ==
  \* judged on the state as it is (lazy insertion: exactly the base terms and the sides of the asserted equations
  \* are inserted - the set the declarative specification calls represented)
  OpPatterns = << >> \/ OpEager \/ ~Exp.nored \/ \A q \in DOMAIN OpPatterns : MatchRefinesAt(st, q)

(* old handles stay valid (C13 at design level): canonicalising them gives an invocation
   of a live class whose arguments are among the handle's own                               *)
HandlesValid ==
  \A t \in DOMAIN hd : LET a == FindA(st, hd[t]) IN
     a.id \in Alive(st) /\ DOMAIN a.m = st.cls[a.id].slots /\ Rng(a.m) \subseteq Rng(hd[t].m)
=============================================================================
