---------------------------- MODULE MC_EGraphOp ----------------------------
(* Refinement check: the operational model EGraphOp computes, for every set   *)
(* of asserted equations and every order of asserting them, exactly the       *)
(* congruence of SlottedCC.  The root module is GENERATED (bin/lib/cc.py:      *)
(* egraphop_check) and defines, as literals,                                   *)
(*   OpTermPool, OpEqPool, OpInsBase, OpMaxEqs   the universe                  *)
(*   Expected    one record per SlottedCC state (from the REPLAY table of the  *)
(*               MC_CC run over the same universe): key, and per pool term its *)
(*               class label, non-redundant names and number of symmetries     *)
(*               (pleaf / psize: the analysis data LeafOps / MinCost(astsize)) *)
(*   OpPolicy ("fifo"/"lifo"), OpEager (insert the whole pool up front, or     *)
(*               only the sides of the asserted equations)                     *)
EXTENDS EGraphOp, Json

CONSTANTS OpTermPool, OpEqPool, OpInsBase, OpMaxEqs, Expected, OpEager

VARIABLES st, hd, key      \* model state, handle per inserted pool term, asserted equations

RECURSIVE InsertAll(_, _, _)
InsertAll(s, h, tis) ==           \* insert the pool terms tis (a sequence of indices) not yet inserted
  IF tis = << >> THEN [st |-> s, hd |-> h]
  ELSE IF Head(tis) \in DOMAIN h THEN InsertAll(s, h, Tail(tis))
  ELSE LET r == AddTerm(s, OpTermPool[Head(tis)]) IN
       InsertAll(r.st, (Head(tis) :> r.a) @@ h, Tail(tis))

AllTis == [i \in 1..Len(OpTermPool) |-> i]
Init == /\ key = {}
        /\ LET r == InsertAll(Empty, << >>, IF OpEager THEN AllTis ELSE SetToSortSeq(OpInsBase, <)) IN
           st = r.st /\ hd = r.hd

ApplyEq(e) ==
  /\ e \notin key /\ Cardinality(key) < OpMaxEqs
  /\ LET r == InsertAll(st, hd, <<OpEqPool[e][1], OpEqPool[e][2]>>) IN
     /\ st' = Union(r.st, r.hd[OpEqPool[e][1]], r.hd[OpEqPool[e][2]])
     /\ hd' = r.hd
  /\ key' = key \cup {e}
Next == \E e \in DOMAIN OpEqPool : ApplyEq(e)
Spec == Init /\ [][Next]_<<st, hd, key>>

Exp == CHOOSE r \in Expected : r.key = SetToSortSeq(key, <)
Say(tag, x) == PrintT("OPBAD " \o ToJson([what |-> tag, key |-> SetToSortSeq(key, <), detail |-> x]))

Refines ==
  LET o  == InsertAll(st, hd, AllTis)
      s  == o.st
      h  == o.hd
      T  == DOMAIN OpTermPool
      eqbad == {p \in T \X T : EqA(s, h[p[1]], h[p[2]]) # (Exp.lab[p[1]] = Exp.lab[p[2]])}
      slbad == {t \in T : Rng(FindA(s, h[t]).m) # Range(Exp.slots[t])}
      sybad == {t \in T : Cardinality(s.cls[FindA(s, h[t]).id].grp) # Exp.syms[t]}
  IN /\ IF eqbad = {} THEN TRUE ELSE Say("equalities differ from the congruence", SetToSeq(eqbad))
     /\ IF slbad = {} THEN TRUE ELSE Say("slot sets differ", SetToSeq(slbad))
     /\ IF sybad = {} THEN TRUE ELSE Say("symmetry groups differ", SetToSeq(sybad))
     /\ IF Analysis = "none" THEN TRUE
        ELSE LET dbad == {t \in T : s.cls[FindA(s, h[t]).id].data #
                                       (IF Analysis = "leaves" THEN Range(Exp.pleaf[t]) ELSE Exp.psize[t])}
             IN IF dbad = {} THEN TRUE ELSE Say("analysis data are not the least fixpoint of make/merge", SetToSeq(dbad))
     /\ IF WellFormed(s) THEN TRUE ELSE Say("structural invariants violated", << >>)
     /\ IF WellFormed(st) THEN TRUE ELSE Say("structural invariants violated before observing", << >>)

(* old handles stay valid (C13 at design level): canonicalising them gives an invocation
   of a live class whose arguments are among the handle's own                               *)
HandlesValid ==
  \A t \in DOMAIN hd : LET a == FindA(st, hd[t]) IN
     a.id \in Alive(st) /\ DOMAIN a.m = st.cls[a.id].slots /\ Rng(a.m) \subseteq Rng(hd[t].m)
=============================================================================
