CONSTANTS
  IterLimit = 3
  NodeLimit = 2
  MaxNodes = 4
SPECIFICATION SpecEqsat
INVARIANTS TypeOK BoundedEqsat
PROPERTY Terminates
CHECK_DEADLOCK FALSE
