CONSTANTS
  IterLimit = 3
  NodeLimit = 2
  MaxNodes = 4
  TimeLimit = 2
  MaxClock = 4
SPECIFICATION SpecEqsat
INVARIANTS TypeOK BoundedEqsat TruthEqsat MustStopEqsat
PROPERTY Terminates
CHECK_DEADLOCK FALSE
