CONSTANTS
  NC = 3
  MaxNodes = 3
  Weights = {1, 2}
  CostKind = "size"
SPECIFICATION Spec
INVARIANTS Correct Settled
CHECK_DEADLOCK FALSE
