CONSTANTS
  NC = 2
  MaxNodes = 4
  Weights = {1, 2}
  CostKind = "depth"
SPECIFICATION Spec
INVARIANTS Correct Settled
CHECK_DEADLOCK FALSE
