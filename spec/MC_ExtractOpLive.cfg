CONSTANTS
  NC = 2
  MaxNodes = 3
  Weights = {1, 2}
  CostKind = "depth"
SPECIFICATION Spec
INVARIANTS Correct Settled
PROPERTY Terminates
CHECK_DEADLOCK FALSE
