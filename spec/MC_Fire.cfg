CONSTANTS
  N <- MCN
  TermPool <- MCTermPool
  EqPool <- MCEqPool
  MaxEqs <- MCMaxEqs
  InsBase <- MCInsBase
  Patterns <- MCPatterns
  Rule <- MCRule
  Instances <- MCInstances
INIT Init
NEXT Next
INVARIANTS TypeOK Normal IncrementalIsBatch ContainsSeeds Congruent Emit
PROPERTY Monotone
CHECK_DEADLOCK FALSE
