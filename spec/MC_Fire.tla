------------------------------ MODULE MC_Fire ------------------------------
(* C04: bounded SlottedCC instances whose term pool holds planted instances   *)
(* of one rewrite rule.  The instances l.sigma / r.sigma listed in the        *)
(* universe file are re-computed here with Terms.Inst - the specification,    *)
(* not the generator, defines what "instance of the left pattern" means.      *)
(* The REPLAY lines (MC_CC) then say for every state whether each l.sigma is  *)
(* Represented; a represented instance must fire.                             *)
EXTENDS MC_CC
CONSTANTS Rule,        \* [l |-> pattern, r |-> pattern]
          Instances    \* Seq([sigma |-> [var |-> term], rho |-> Seq(<<slot, name>>), l |-> idx, r |-> idx])

RhoOf(ps) == [x \in {ps[i][1] : i \in DOMAIN ps} |-> ps[CHOOSE i \in DOMAIN ps : ps[i][1] = x][2]]

InstancesAgree ==
  \A j \in DOMAIN Instances :
     LET I == Instances[j] IN
     /\ Inst(Rule.l, I.sigma, RhoOf(I.rho)) = TermPool[I.l]
     /\ Inst(Rule.r, I.sigma, RhoOf(I.rho)) = TermPool[I.r]
ASSUME InstancesAgree
=============================================================================
