CONSTANTS
  Deg <- MCDeg
  MaxGens <- MCMaxGens
INIT MCInit
NEXT MCNext
VIEW View
INVARIANTS IsGroup Lagrange OrbitsPartition
ACTION_CONSTRAINT EmitTrans
CHECK_DEADLOCK FALSE
