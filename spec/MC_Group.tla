------------------------------ MODULE MC_Group ------------------------------
EXTENDS Group, Json, SequencesExt
VARIABLE last    \* the generator set of the last AddSet (observation only, hidden by VIEW)

SymSeq == SetToSeq(Sym)
PIdx(p) == CHOOSE i \in 1..Len(SymSeq) : SymSeq[i] = p
IdxSet(H) == SetToSortSeq({PIdx(p) : p \in H}, <)

ASSUME PrintT("GRPERMS " \o ToJson([deg |-> Deg, perms |-> SymSeq]))

MCInit == Init /\ last = {}
MCNext == \E P \in GenSets : AddSet(P) /\ last' = P
View == G

(* one line per transition: from-group, generator set, to-group, growth flag, orbits *)
EmitTrans ==
  PrintT("GRTRANS " \o ToJson(
    [from |-> IdxSet(G), gens |-> IdxSet(last'), to |-> IdxSet(G'), grew |-> (G' # G),
     orbits |-> [x \in Pts |-> SetToSortSeq(Orbit(G', x), <)]]))
=============================================================================
