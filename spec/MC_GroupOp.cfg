CONSTANTS
  Deg = 4
  MaxGens = 1
INIT OpInit
NEXT OpNext
INVARIANTS Refines WellFormedChain IsGroup
PROPERTY GrewIffNew
CHECK_DEADLOCK FALSE
