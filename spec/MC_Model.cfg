CONSTANTS
  P <- MCP
  NumTable <- MCNumTable
  Rules <- MCRules
  SubPool <- MCSubPool
INIT Init
NEXT Next
INVARIANT Valid
CHECK_DEADLOCK FALSE
