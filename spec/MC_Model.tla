------------------------------ MODULE MC_Model ------------------------------
(* Discharges the antecedent of C03: every rule of the pool is valid in the   *)
(* model for ALL admissible substitutions of its variables by the terms of a  *)
(* small universe (including terms that mention the rule's bound slots) and   *)
(* all environments.  One state per rule.                                     *)
EXTENDS Model
CONSTANTS Rules, SubPool
VARIABLE r
Init == r = 0
Next == r < Len(Rules) /\ r' = r + 1
Valid == r > 0 =>
   LET rule == Rules[r]
       vs == PVars(rule.l) \cup PVars(rule.r)
   IN \A sigma \in [vs -> SubPool] : RuleValidFor(rule, sigma)
=============================================================================
