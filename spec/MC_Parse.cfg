CONSTANTS
  Sig <- MCSig
  Payloads <- MCPayloads
  Alphabet <- MCAlphabet
  MaxLen <- MCMaxLen
  Mode <- MCMode
INIT Init
NEXT Next
INVARIANTS Total RoundTrip Emit
CHECK_DEADLOCK FALSE
