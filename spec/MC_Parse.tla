------------------------------ MODULE MC_Parse ------------------------------
(* Enumerates all strings up to MaxLen over Alphabet (tokens or characters,   *)
(* Mode) as the state space, checks the reference parser's own laws, and      *)
(* emits every ACCEPTED string with its AST.                                  *)
EXTENDS Parse, Json
CONSTANTS Alphabet, MaxLen, Mode     \* Mode = "tok" | "chr"
VARIABLE s

Result == IF Mode = "tok" THEN Parse(s) ELSE ParseChars(s)

Init == s = << >>
Next == Len(s) < MaxLen /\ \E a \in Alphabet : s' = Append(s, a)

(* total + well-formed, and print->parse is the identity on every result      *)
Total      == Result.ok => WellFormed(Result.ast)
RoundTrip  == Result.ok => LET p == Parse(Unparse(Result.ast)) IN p.ok /\ p.ast = Result.ast
Emit       == Result.ok => PrintT("PARSEOK " \o ToJson([s |-> s, ast |-> Result.ast, multi |-> MultiRhsOK(Result.ast)]))
=============================================================================
