CONSTANTS
  IterLimit = 3
  NodeLimit = 2
  MaxNodes = 4
  TimeLimit = 2
  MaxClock = 4
SPECIFICATION SpecRunner
INVARIANTS TypeOK BoundedRunner TruthRunner MustStopRunner
PROPERTY Terminates
CHECK_DEADLOCK FALSE
