CONSTANTS
  IterLimit = 3
  NodeLimit = 2
  MaxNodes = 4
SPECIFICATION SpecRunner
INVARIANTS TypeOK BoundedRunner TruthRunner
PROPERTY Terminates
CHECK_DEADLOCK FALSE
