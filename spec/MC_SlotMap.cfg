CONSTANTS
  S <- MCS
  PairS <- MCPairS
INIT Init
NEXT Next
INVARIANTS TypeOK EmitState
CHECK_DEADLOCK FALSE
