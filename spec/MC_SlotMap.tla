----------------------------- MODULE MC_SlotMap -----------------------------
(* Bounded instance + emitters.  Root module defines MCS (the slot set) and  *)
(* MCPairS (slot set for the exhaustive binary-operation table).             *)
EXTENDS SlotMap, Json, SequencesExt

CONSTANT PairS

PairSeq(a) == SetToSortSeq(AsPairs(a), LAMBDA p, q : p[1] < q[1])
SetSeq(X)  == SetToSortSeq(X, <)

(* everything the unary public operations return in state a                  *)
Reads(a) ==
  [pairs  |-> PairSeq(a), len |-> Len_(a), keys |-> SetSeq(Keys(a)), values |-> SetSeq(Values(a)),
   bij    |-> IsBij(a), perm |-> IsPerm(a),
   inv    |-> IF IsBij(a) THEN PairSeq(SmInverse(a)) ELSE << >>,
   get    |-> [k \in S |-> Get(a, k)]]

(* one line per state: reads and all successors                              *)
EmitState ==
  PrintT("SMSTATE " \o ToJson(
     [st  |-> Reads(m),
      ins |-> [k \in S |-> [v \in S |-> PairSeq(Ins(m, k, v))]],
      rem |-> [k \in S |-> PairSeq(Rem(m, k))]]))

(* exhaustive table of the binary operations over all pairs of maps on PS    *)
PS == PairS
PMaps == UNION {[D -> PS] : D \in SUBSET PS}
BinRow(a, b) ==
  [a |-> PairSeq(a), b |-> PairSeq(b),
   cp |-> PairSeq(ComposePartial(a, b)), cdef |-> ComposeDefined(a, b),
   fresh |-> SetSeq(FreshKeys(a, b)),
   compat |-> Compatible(a, b), un |-> PairSeq(Union_(a, b))]
ASSUME LawInverseInverse(S) /\ LawInverseCompose(S) /\ LawUnionCompat(PS) /\ LawIdentity(S)
ASSUME LawAssoc(PS)
ASSUME LawFromSeq(S)
ASSUME \A a \in PMaps : PrintT("SMBIN " \o ToJson([rows |-> SetToSeq({BinRow(a, b) : b \in PMaps})]))
=============================================================================
