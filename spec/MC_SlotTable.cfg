CONSTANTS
  NameAlphabet <- MCNames
  NumAlphabet <- MCNums
  MaxDepth <- MCDepth
INIT Init
NEXT Next
INVARIANTS FreshIsNew BelowCtr NamesInjective NamedInjective RoundTrip Emit
CHECK_DEADLOCK FALSE
