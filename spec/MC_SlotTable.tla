---------------------------- MODULE MC_SlotTable ----------------------------
EXTENDS SlotTable, Json
(* one line per maximal behaviour: the call sequence with expected results   *)
Emit == Len(hist) = MaxDepth => PrintT("STREPLAY " \o ToJson(hist))
=============================================================================
