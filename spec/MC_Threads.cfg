CONSTANTS
  MainProg <- MCMain
  NoiseProg <- MCNoise
INIT Init
NEXT Next
INVARIANTS Reproducible Emit
CHECK_DEADLOCK FALSE
