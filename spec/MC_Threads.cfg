CONSTANTS
  MainProg <- MCMain
  NoiseProg <- MCNoise
  TimeLimit = 1000
INIT Init
NEXT Next
INVARIANTS Reproducible Emit
CHECK_DEADLOCK FALSE
