----------------------------- MODULE MC_Threads -----------------------------
EXTENDS Threads, Json
ASSUME FarLimit
Emit == Done => PrintT("SCHEDULE " \o ToJson([sched |-> sched, symorder |-> syms]))
=============================================================================
