----------------------------- MODULE MC_Threads -----------------------------
EXTENDS Threads, Json
Emit == Done => PrintT("SCHEDULE " \o ToJson([sched |-> sched, symorder |-> syms]))
=============================================================================
