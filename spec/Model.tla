------------------------------- MODULE Model -------------------------------
(***************************************************************************)
(* The model in which rewrite rules are valid (C03): arithmetic over the    *)
(* prime field GF(P) with a summation binder and a let binder, for terms of *)
(* the harness language A:                                                  *)
(*    <number>   (var x)   (add a b)   (mul a b)   (sum x b)   (let x b e)  *)
(* sum x b  =  sum of b over all x in GF(P);   let x b e  =  b with x := e. *)
(* Rules are pairs of patterns (Terms.Inst) with an optional side condition *)
(* "slot s is not free in ?v".                                              *)
(***************************************************************************)
EXTENDS Terms

CONSTANTS P,
          NumTable    \* [literal text |-> value] for every number literal that occurs

NumVal(op) == NumTable[op]

Ext(env, x, v) == [y \in (DOMAIN env) \cup {x} |-> IF y = x THEN v ELSE env[y]]

RECURSIVE Eval(_, _)
RECURSIVE SumUpTo(_, _, _, _)
SumUpTo(b, env, x, k) ==
  IF k < 0 THEN 0 ELSE (Eval(b, Ext(env, x, k)) + SumUpTo(b, env, x, k - 1)) % P
Eval(t, env) ==
  CASE t.op = "var" -> env[t.sl[1]]
    [] t.op = "add" -> (Eval(t.ch[1].t, env) + Eval(t.ch[2].t, env)) % P
    [] t.op = "mul" -> (Eval(t.ch[1].t, env) * Eval(t.ch[2].t, env)) % P
    [] t.op = "sum" -> SumUpTo(t.ch[1].t, env, t.ch[1].bd[1], P - 1)
    [] t.op = "let" -> Eval(t.ch[1].t, Ext(env, t.ch[1].bd[1], Eval(t.ch[2].t, env)))
    [] OTHER        -> NumVal(t.op) % P

Envs(names) == [names -> 0..(P - 1)]

(* two terms denote the same function of their free slots                   *)
SameMeaning(t, u) == \A env \in Envs(FV(t) \cup FV(u)) : Eval(t, env) = Eval(u, env)

(***************************************************************************)
(* Which slots may the term substituted for a pattern variable mention?     *)
(* A match binds ?v to a class invocation at each of its occurrences in the *)
(* LEFT pattern; a bound pattern slot can be among its arguments only if    *)
(* every left occurrence of ?v lies in the scope of that binder.            *)
(***************************************************************************)
RECURSIVE Scopes(_, _, _)
Scopes(pat, v, bound) ==
  IF IsPVar(pat) THEN (IF pat.op = v THEN {bound} ELSE {})
  ELSE UNION {Scopes(pat.ch[k].t, v, bound \cup Range(pat.ch[k].bd)) : k \in DOMAIN pat.ch}

RECURSIVE BoundNames(_)
BoundNames(pat) == UNION {Range(pat.ch[k].bd) \cup BoundNames(pat.ch[k].t) : k \in DOMAIN pat.ch}

RECURSIVE PVars(_)
PVars(pat) == IF IsPVar(pat) THEN {pat.op} ELSE UNION {PVars(pat.ch[k].t) : k \in DOMAIN pat.ch}

Allowed(l, v) == LET sc == Scopes(l, v, {}) IN {x \in BoundNames(l) : \A s \in sc : x \in s}

AdmissibleSubst(l, sigma) ==
  \A v \in PVars(l) : FV(sigma[v]) \cap BoundNames(l) \subseteq Allowed(l, v)

(* a rule: [name, l, r, cond] with cond = << >> or <<slot, var>> meaning    *)
(* "slot is not free in the term bound to var"                              *)
CondHolds(rule, sigma) == rule.cond = << >> \/ rule.cond[1] \notin FV(sigma[rule.cond[2]])

IdOn(S) == [x \in S |-> x]

(* the right side may contain  b[x := t]  encoded as op "subst" with three  *)
(* children; its meaning is  let  with  x = the slot of the (var x) pattern *)
RECURSIVE Desugar(_)
Desugar(t) ==
  IF t.op = "subst"
  THEN [op |-> "let", sl |-> << >>,
        ch |-> <<[bd |-> <<t.ch[2].t.sl[1]>>, t |-> Desugar(t.ch[1].t)], [bd |-> << >>, t |-> Desugar(t.ch[3].t)]>>]
  ELSE [op |-> t.op, sl |-> t.sl, ch |-> [k \in DOMAIN t.ch |-> [bd |-> t.ch[k].bd, t |-> Desugar(t.ch[k].t)]]]

RuleValidFor(rule, sigma) ==
  (AdmissibleSubst(rule.l, sigma) /\ CondHolds(rule, sigma)) =>
     LET S  == Names(rule.l) \cup Names(rule.r)
         li == Inst(rule.l, sigma, IdOn(S))
         ri == Desugar(Inst(rule.r, sigma, IdOn(S)))
     IN SameMeaning(li, ri)
=============================================================================
