------------------------------- MODULE Parse -------------------------------
(***************************************************************************)
(* Tokenizer, parser and printer of terms / patterns (src/parse.rs) as a   *)
(* total reference: Parse returns an error or a WELL-FORMED abstract       *)
(* syntax tree, i.e. every node has exactly the direct slots, binders and  *)
(* children its operator takes (Sig).                                      *)
(*                                                                         *)
(* token  = <<kind, text>>, kind in lp rp lb rb ce id pv sl                 *)
(* AST    = [k, op, sl, ch]:  k = "node": operator op, direct slots sl,     *)
(*          children ch = Seq([bd |-> Seq(name), t |-> AST]);               *)
(*          k = "pvar": pattern variable op;  k = "subst": ch = <<b, x, t>> *)
(*          for  b[x := t].                                                 *)
(***************************************************************************)
EXTENDS Naturals, Sequences, FiniteSets, TLC

CONSTANTS Sig,        \* [operator |-> [nsl |-> Nat, bind |-> Seq(Nat)]]  (binders per child)
          Payloads    \* set of identifier texts accepted by a payload variant (leaf)

Range(f) == {f[i] : i \in DOMAIN f}

NoAst == [k |-> "none", op |-> "", sl |-> << >>, ch |-> << >>]
Fail  == [ok |-> FALSE, ast |-> NoAst, rest |-> << >>]
Ok(a, r) == [ok |-> TRUE, ast |-> a, rest |-> r]
NodeAst(op, sl, ch) == [k |-> "node", op |-> op, sl |-> sl, ch |-> ch]
PVarAst(v) == [k |-> "pvar", op |-> v, sl |-> << >>, ch |-> << >>]
SubstAst(b, x, t) == [k |-> "subst", op |-> "", sl |-> << >>,
                      ch |-> <<[bd |-> << >>, t |-> b], [bd |-> << >>, t |-> x], [bd |-> << >>, t |-> t]>>]

(* the element kinds an operator expects after its name: "s" slot, "p" pattern *)
RECURSIVE Repeat(_, _)
Repeat(x, k) == IF k = 0 THEN << >> ELSE <<x>> \o Repeat(x, k - 1)
RECURSIVE ChildKinds(_)
ChildKinds(bs) == IF bs = << >> THEN << >> ELSE Repeat("s", Head(bs)) \o <<"p">> \o ChildKinds(Tail(bs))
Expect(op) == Repeat("s", Sig[op].nsl) \o ChildKinds(Sig[op].bind)

(* build the node from the parsed elements (el = Seq([s, name, ast])) *)
RECURSIVE BuildCh(_, _)
BuildCh(bs, el) ==
  IF bs = << >> THEN << >>
  ELSE LET nb == Head(bs) IN
       <<[bd |-> [i \in 1..nb |-> el[i].name], t |-> el[nb + 1].ast]>> \o
       BuildCh(Tail(bs), SubSeq(el, nb + 2, Len(el)))

Build(op, el) ==
  IF op \in DOMAIN Sig THEN
     IF [i \in 1..Len(el) |-> IF el[i].s THEN "s" ELSE "p"] = Expect(op)
     THEN [ok |-> TRUE,
           ast |-> NodeAst(op, [i \in 1..Sig[op].nsl |-> el[i].name],
                           BuildCh(Sig[op].bind, SubSeq(el, Sig[op].nsl + 1, Len(el))))]
     ELSE [ok |-> FALSE, ast |-> NoAst]
  ELSE IF el = << >> /\ op \in Payloads THEN [ok |-> TRUE, ast |-> NodeAst(op, << >>, << >>)]
  ELSE [ok |-> FALSE, ast |-> NoAst]

RECURSIVE PPattern(_)
RECURSIVE PNoSubst(_)
RECURSIVE PSubstLoop(_, _)
RECURSIVE PElems(_, _)

PPattern(tok) == LET r == PNoSubst(tok) IN IF ~r.ok THEN Fail ELSE PSubstLoop(r.ast, r.rest)

PSubstLoop(pat, tok) ==
  IF tok # << >> /\ tok[1][1] = "lb" THEN
     LET l == PPattern(Tail(tok)) IN
     IF ~l.ok \/ l.rest = << >> THEN Fail
     ELSE IF l.rest[1][1] # "ce" THEN Fail
     ELSE LET r == PPattern(Tail(l.rest)) IN
          IF ~r.ok \/ r.rest = << >> THEN Fail
          ELSE IF r.rest[1][1] # "rb" THEN Fail
          ELSE PSubstLoop(SubstAst(pat, l.ast, r.ast), Tail(r.rest))
  ELSE Ok(pat, tok)

(* elements up to the closing parenthesis: [ok, el, rest] *)
PElems(tok, acc) ==
  IF tok = << >> THEN [ok |-> FALSE, el |-> << >>, rest |-> << >>]
  ELSE IF tok[1][1] = "rp" THEN [ok |-> TRUE, el |-> acc, rest |-> Tail(tok)]
  ELSE IF tok[1][1] = "sl"
       THEN PElems(Tail(tok), Append(acc, [s |-> TRUE, name |-> tok[1][2], ast |-> NoAst]))
  ELSE LET r == PPattern(tok) IN
       IF ~r.ok THEN [ok |-> FALSE, el |-> << >>, rest |-> << >>]
       ELSE PElems(r.rest, Append(acc, [s |-> FALSE, name |-> "", ast |-> r.ast]))

PNoSubst(tok) ==
  IF tok = << >> THEN Fail
  ELSE IF tok[1][1] = "pv" THEN Ok(PVarAst(tok[1][2]), Tail(tok))
  ELSE IF tok[1][1] = "lp" THEN
       IF Len(tok) < 2 THEN Fail
       ELSE IF tok[2][1] # "id" THEN Fail
       ELSE LET e == PElems(SubSeq(tok, 3, Len(tok)), << >>) IN
            IF ~e.ok THEN Fail
            ELSE LET b == Build(tok[2][2], e.el) IN IF b.ok THEN Ok(b.ast, e.rest) ELSE Fail
  ELSE IF tok[1][1] = "id" THEN
       LET b == Build(tok[1][2], << >>) IN IF b.ok THEN Ok(b.ast, Tail(tok)) ELSE Fail
  ELSE Fail

Parse(tok) == LET r == PPattern(tok) IN IF r.ok /\ r.rest = << >> THEN r ELSE Fail

(* terms (RecExpr): patterns without pattern variables and substitutions *)
RECURSIVE IsTerm(_)
IsTerm(a) == a.k = "node" /\ \A i \in DOMAIN a.ch : IsTerm(a.ch[i].t)

(* right-hand side of a multi-pattern clause  ?v == (op ?c1 .. ?cn): nesting depth one *)
MultiRhsOK(a) == a.k = "node" /\ \A i \in DOMAIN a.ch : a.ch[i].t.k = "pvar"

(* well-formedness, stated independently of the parser *)
RECURSIVE WellFormed(_)
WellFormed(a) ==
  CASE a.k = "pvar" -> TRUE
    [] a.k = "subst" -> Len(a.ch) = 3 /\ \A i \in 1..3 : WellFormed(a.ch[i].t)
    [] a.k = "node" ->
         /\ \A i \in DOMAIN a.ch : WellFormed(a.ch[i].t)
         /\ IF a.op \in DOMAIN Sig
            THEN /\ Len(a.sl) = Sig[a.op].nsl
                 /\ Len(a.ch) = Len(Sig[a.op].bind)
                 /\ \A i \in DOMAIN a.ch : Len(a.ch[i].bd) = Sig[a.op].bind[i]
            ELSE a.op \in Payloads /\ a.sl = << >> /\ a.ch = << >>
    [] OTHER -> FALSE

(***************************************************************************)
(* Printer                                                                  *)
(***************************************************************************)
RECURSIVE Unparse(_)
RECURSIVE UnparseCh(_)
UnparseCh(ch) ==
  IF ch = << >> THEN << >>
  ELSE [i \in 1..Len(Head(ch).bd) |-> <<"sl", Head(ch).bd[i]>>] \o Unparse(Head(ch).t) \o UnparseCh(Tail(ch))
Unparse(a) ==
  CASE a.k = "pvar" -> <<<<"pv", a.op>>>>
    [] a.k = "subst" -> Unparse(a.ch[1].t) \o <<<<"lb", "">>>> \o Unparse(a.ch[2].t) \o <<<<"ce", "">>>>
                        \o Unparse(a.ch[3].t) \o <<<<"rb", "">>>>
    [] OTHER -> IF a.sl = << >> /\ a.ch = << >> THEN <<<<"id", a.op>>>>
                ELSE <<<<"lp", "">>, <<"id", a.op>>>> \o [i \in 1..Len(a.sl) |-> <<"sl", a.sl[i]>>]
                     \o UnparseCh(a.ch) \o <<<<"rp", "">>>>

(***************************************************************************)
(* Tokenizer over a sequence of one-character strings.  Whitespace = " ".   *)
(***************************************************************************)
IsWs(c)    == c = " "
IdentCh(c) == ~IsWs(c) /\ c \notin {"(", ")", "[", "]"}
RECURSIVE IdentLen(_)
IdentLen(cs) == IF cs = << >> THEN 0 ELSE IF IdentCh(Head(cs)) THEN 1 + IdentLen(Tail(cs)) ELSE 0
RECURSIVE Join(_)
Join(cs) == IF cs = << >> THEN "" ELSE Head(cs) \o Join(Tail(cs))

LexFail == [ok |-> FALSE, toks |-> << >>]
RECURSIVE Lex(_, _)
Lex(cs, acc) ==
  IF cs = << >> THEN [ok |-> TRUE, toks |-> acc]
  ELSE LET c == Head(cs) IN
  IF IsWs(c) THEN Lex(Tail(cs), acc)
  ELSE IF c = "(" THEN Lex(Tail(cs), Append(acc, <<"lp", "">>))
  ELSE IF c = ")" THEN Lex(Tail(cs), Append(acc, <<"rp", "">>))
  ELSE IF c = "[" THEN Lex(Tail(cs), Append(acc, <<"lb", "">>))
  ELSE IF c = "]" THEN Lex(Tail(cs), Append(acc, <<"rb", "">>))
  ELSE IF c = ":" /\ Len(cs) >= 2 /\ cs[2] = "=" THEN Lex(SubSeq(cs, 3, Len(cs)), Append(acc, <<"ce", "">>))
  ELSE IF c \in {"?", "$"} THEN
       LET k == IdentLen(Tail(cs)) IN
       IF k = 0 THEN LexFail
       ELSE Lex(SubSeq(cs, k + 2, Len(cs)),
                Append(acc, <<IF c = "?" THEN "pv" ELSE "sl", Join(SubSeq(cs, 2, k + 1))>>))
  ELSE LET k == IdentLen(cs) IN
       Lex(SubSeq(cs, k + 1, Len(cs)), Append(acc, <<"id", Join(SubSeq(cs, 1, k))>>))

ParseChars(cs) == LET l == Lex(cs, << >>) IN IF l.ok THEN Parse(l.toks) ELSE Fail
=============================================================================
