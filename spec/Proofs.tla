------------------------------- MODULE Proofs -------------------------------
(***************************************************************************)
(* An independent checker for explanation proofs (C07), working on TERMS.   *)
(* A proof is a DAG: node = [id, rule, l, r, prem, just] with l = r the     *)
(* node's conclusion (terms), prem the ids of its premises.  Equations are  *)
(* universally quantified over injective renamings, so a premise  a = b     *)
(* may be used as  theta(a) = theta(b)  for any map theta that is injective *)
(* on the free slots of a and on the free slots of b.                       *)
(***************************************************************************)
EXTENDS Terms

(* t is p under a renaming injective on FV(p)  <=>  equal Shape; the renaming *)
(* is then FreeSeq(p)[i] |-> FreeSeq(t)[i]                                    *)
SameShape(p, t) == Shape(p) = Shape(t)
Theta(p, t) == LET fp == FreeSeq(p) ft == FreeSeq(t) IN [x \in Range(fp) |-> ft[PosIn(fp, x)]]

Agree(f, g) == \A x \in (DOMAIN f) \cap (DOMAIN g) : f[x] = g[x]
Inj(f) == \A x, y \in DOMAIN f : f[x] = f[y] => x = y

(* premise a = b instantiates to l = r *)
MatchEq(a, b, l, r) ==
  /\ SameShape(a, l) /\ SameShape(b, r)
  /\ Agree(Theta(a, l), Theta(b, r))

(* the same, with the instantiating renaming injective on ALL slots (conclusion vs query) *)
MatchEqInj(a, b, l, r) ==
  /\ MatchEq(a, b, l, r)
  /\ LET t1 == Theta(a, l) t2 == Theta(b, r)
         u == [x \in (DOMAIN t1) \cup (DOMAIN t2) |-> IF x \in DOMAIN t1 THEN t1[x] ELSE t2[x]]
     IN Inj(u)

ReflOK(l, r) == AlphaEq(l, r)

SymOK(l, r, p) == MatchEq(p.r, p.l, l, r)

(* a = b, b2 = c  |-  l = r :  theta1(a) = l, theta2(c) = r, theta1(b) = theta2(b2) with  *)
(* theta1 injective on FV(b), theta2 injective on FV(b2)                                   *)
TransOK(l, r, p1, p2) ==
  LET a == p1.l b == p1.r b2 == p2.l c == p2.r IN
  /\ SameShape(a, l) /\ SameShape(c, r) /\ SameShape(b, b2)
  /\ LET t1 == Theta(a, l) t2 == Theta(c, r)
         fb == FreeSeq(b) fb2 == FreeSeq(b2)
         K == 1..Len(fb)
         d1(i) == fb[i] \in DOMAIN t1
         d2(i) == fb2[i] \in DOMAIN t2
         w(i) == IF d1(i) THEN t1[fb[i]] ELSE t2[fb2[i]]
     IN /\ \A i \in K : (d1(i) /\ d2(i)) => t1[fb[i]] = t2[fb2[i]]
        /\ \A i, j \in K : (i # j /\ (d1(i) \/ d2(i)) /\ (d1(j) \/ d2(j))) => w(i) # w(j)

(* congruence: same operator, same direct slots, same binder counts; child k's equation   *)
(* (with the binders of both sides renamed to common names) is an instance of premise k   *)
CommonBd(c, lvl) == [i \in 1..Len(c.bd) |-> 500000 + lvl + i]
RenBd(c) ==      \* child term with its binders renamed to the common names (last binder of a name wins)
  LET m == [x \in Names(c.t) \cup Range(c.bd) |-> IF x \in Range(c.bd) THEN 500000 + LastPos(c.bd, x) ELSE x]
  IN Ren(c.t, m)
CongOK(l, r, prems) ==
  /\ l.op = r.op /\ l.sl = r.sl
  /\ Len(l.ch) = Len(r.ch) /\ Len(prems) = Len(l.ch)
  /\ \A k \in DOMAIN l.ch :
       /\ Len(l.ch[k].bd) = Len(r.ch[k].bd)
       /\ MatchEq(prems[k].l, prems[k].r, RenBd(l.ch[k]), RenBd(r.ch[k]))

(* a leaf must be (a renaming of) an equation the user asserted, with its justification   *)
ExplicitOK(l, r, just, asserted) ==
  \E i \in DOMAIN asserted : asserted[i].j = just /\ MatchEq(asserted[i].a, asserted[i].b, l, r)

StepOK(nd, dag, asserted) ==
  /\ \A k \in DOMAIN nd.prem : nd.prem[k] < nd.id          \* well-founded
  /\ CASE nd.rule = "refl"  -> nd.prem = << >> /\ ReflOK(nd.l, nd.r)
       [] nd.rule = "sym"   -> Len(nd.prem) = 1 /\ SymOK(nd.l, nd.r, dag[nd.prem[1]])
       [] nd.rule = "trans" -> Len(nd.prem) = 2 /\ TransOK(nd.l, nd.r, dag[nd.prem[1]], dag[nd.prem[2]])
       [] nd.rule = "cong"  -> CongOK(nd.l, nd.r, [k \in DOMAIN nd.prem |-> dag[nd.prem[k]]])
       [] nd.rule = "explicit" -> nd.prem = << >> /\ ExplicitOK(nd.l, nd.r, nd.just, asserted)
       [] OTHER -> FALSE

ProofOK(dag, root, ql, qr, asserted) ==
  /\ \A i \in DOMAIN dag : dag[i].id = i /\ StepOK(dag[i], dag, asserted)
  /\ MatchEqInj(dag[root].l, dag[root].r, ql, qr)

(***************************************************************************)
(* Flat explanations (to_flat_string): a chain of WHOLE terms               *)
(*   start = t0, t1, .., tn                                                 *)
(* in which step i rewrites the subterm at position pos (child indices from  *)
(* the root) with the asserted equation `just`, forwards or backwards.      *)
(* Consecutive terms are concrete terms: outside the rewritten position     *)
(* they agree (siblings up to alpha), at the position the pair of subterms  *)
(* is an instance of the asserted equation under a renaming injective per   *)
(* side.  Binders on the way down are opened with common names per level,   *)
(* so names bound above the position are compared as the same name.         *)
(***************************************************************************)
RenBdL(c, lvl) ==
  LET m == [x \in Names(c.t) \cup Range(c.bd) |->
              IF x \in Range(c.bd) THEN 500000 + 100 * lvl + LastPos(c.bd, x) ELSE x]
  IN Ren(c.t, m)
ChKey(c) == Canon([op |-> "_", sl |-> << >>, ch |-> <<c>>])

RECURSIVE StepAt(_, _, _, _, _, _)
StepAt(cur, dst, p, a, b, lvl) ==
  IF p = << >> THEN MatchEq(a, b, cur, dst)
  ELSE LET k == Head(p) IN
       /\ cur.op = dst.op /\ cur.sl = dst.sl /\ Len(cur.ch) = Len(dst.ch)
       /\ k \in DOMAIN cur.ch
       /\ \A j \in DOMAIN cur.ch : j # k => ChKey(cur.ch[j]) = ChKey(dst.ch[j])
       /\ Len(cur.ch[k].bd) = Len(dst.ch[k].bd)
       /\ StepAt(RenBdL(cur.ch[k], lvl), RenBdL(dst.ch[k], lvl), Tail(p), a, b, lvl + 1)

FlatTerms(fl) == <<fl.start>> \o [i \in DOMAIN fl.steps |-> fl.steps[i].dst]
FlatStepOK(fl, i, asserted) ==
  LET ts == FlatTerms(fl) st == fl.steps[i] IN
  \E k \in DOMAIN asserted :
     /\ asserted[k].j = st.just
     /\ IF st.back THEN StepAt(ts[i], ts[i + 1], st.pos, asserted[k].b, asserted[k].a, 0)
                   ELSE StepAt(ts[i], ts[i + 1], st.pos, asserted[k].a, asserted[k].b, 0)
FlatBadSteps(fl, asserted) == {i \in DOMAIN fl.steps : ~FlatStepOK(fl, i, asserted)}
FlatConcludes(fl, ql, qr) ==
  LET ts == FlatTerms(fl) IN MatchEq(ts[1], ts[Len(ts)], ql, qr)
=============================================================================
