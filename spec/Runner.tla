------------------------------- MODULE Runner -------------------------------
(***************************************************************************)
(* Control loop of slotted_egraphs::Runner::run (src/run/runner.rs) and of  *)
(* run_eqsat (src/run/run.rs).  One action = one iteration.                 *)
(* The e-graph is abstracted to what the loop looks at: did applying the    *)
(* rules change anything (ret), did a hook fail, how many e-nodes.          *)
(*                                                                         *)
(* Runner::run_one: rewrites -> hooks -> limits -> saturation:              *)
(*   hooks fail            => Other                                         *)
(*   finished iterations > iter_limit => IterationLimit   (strict >)        *)
(*   nodes > node_limit    => NodeLimit                                     *)
(*   nothing changed       => Saturated                                     *)
(* run_eqsat: rewrites -> hook -> saturated? -> iterations >= iter_limit    *)
(***************************************************************************)
EXTENDS RunnerOps

CONSTANTS IterLimit, NodeLimit, MaxNodes

VARIABLES iter,      \* Runner: finished run_one calls; run_eqsat: its `iterations` counter
          stop,      \* "none" or the stop reason
          nodes      \* e-node count after the last iteration

vars == <<iter, stop, nodes>>

Reasons == {"saturated", "iter", "node", "time", "other"}

Init == iter = 0 /\ stop = "none" /\ nodes \in 0..MaxNodes

RunnerStop(it, ret, hookOk, n) == RunnerStopL(IterLimit, NodeLimit, it, ret, hookOk, n)

RunOne(ret, hookOk, n) ==
  /\ stop = "none"
  /\ stop' = RunnerStop(iter, ret, hookOk, n)
  /\ iter' = iter + 1
  /\ nodes' = n

EqsatStop(it, ret, hookOk) == EqsatStopL(IterLimit, it, ret, hookOk)

EqsatStep(ret, hookOk, n) ==
  /\ stop = "none"
  /\ stop' = EqsatStop(iter, ret, hookOk)
  /\ iter' = IF stop' = "none" THEN iter + 1 ELSE iter
  /\ nodes' = n

NextRunner == \E ret, hookOk \in BOOLEAN, n \in 0..MaxNodes : RunOne(ret, hookOk, n)
NextEqsat  == \E ret, hookOk \in BOOLEAN, n \in 0..MaxNodes : EqsatStep(ret, hookOk, n)

SpecRunner == Init /\ [][NextRunner]_vars /\ WF_vars(NextRunner)
SpecEqsat  == Init /\ [][NextEqsat]_vars /\ WF_vars(NextEqsat)

(* the loop ends within the configured bound plus a fixed constant          *)
BoundedRunner == iter <= IterLimit + 2
BoundedEqsat  == iter <= IterLimit
TypeOK == stop \in Reasons \cup {"none"}
(* every reason other than saturation is true of the final state            *)
TruthRunner == /\ (stop = "iter" => iter - 1 > IterLimit)
               /\ (stop = "node" => nodes > NodeLimit)
Terminates == <>(stop # "none")
=============================================================================
