------------------------------- MODULE Runner -------------------------------
(***************************************************************************)
(* Control loop of slotted_egraphs::Runner::run (src/run/runner.rs) and of  *)
(* run_eqsat (src/run/run.rs).  One action = one iteration.                 *)
(* The e-graph is abstracted to what the loop looks at: did applying the    *)
(* rules change anything (ret), did a hook fail, how many e-nodes.          *)
(*                                                                         *)
(* Runner::run_one: rewrites -> hooks -> limits -> saturation:              *)
(*   hooks fail            => Other                                         *)
(*   finished iterations > iter_limit => IterationLimit   (strict >)        *)
(*   nodes > node_limit    => NodeLimit                                     *)
(*   elapsed > time_limit  => TimeLimit                                     *)
(*   nothing changed       => Saturated                                     *)
(* run_eqsat: rewrites -> hook -> saturated? -> iterations >= iter_limit    *)
(*            -> elapsed (whole seconds) >= time_limit                      *)
(* The clock is an abstract non-decreasing counter (milliseconds).          *)
(***************************************************************************)
EXTENDS RunnerOps

CONSTANTS IterLimit, NodeLimit, MaxNodes, TimeLimit, MaxClock

VARIABLES iter,      \* Runner: finished run_one calls; run_eqsat: its `iterations` counter
          stop,      \* "none" or the stop reason
          nodes,     \* e-node count after the last iteration
          clock      \* time elapsed when the limits were last looked at

vars == <<iter, stop, nodes, clock>>

Reasons == {"saturated", "iter", "node", "time", "other"}

Init == iter = 0 /\ stop = "none" /\ nodes \in 0..MaxNodes /\ clock = 0

RunnerStop(it, ret, hookOk, n, e) == RunnerStopL(IterLimit, NodeLimit, TimeLimit, it, ret, hookOk, n, e)

RunOne(ret, hookOk, n, e) ==
  /\ stop = "none"
  /\ e >= clock /\ clock' = e
  /\ stop' = RunnerStop(iter, ret, hookOk, n, e)
  /\ iter' = iter + 1
  /\ nodes' = n

EqsatStop(it, ret, hookOk, e) == EqsatStopL(IterLimit, TimeLimit, it, ret, hookOk, e)

EqsatStep(ret, hookOk, n, e) ==
  /\ stop = "none"
  /\ e >= clock /\ clock' = e
  /\ stop' = EqsatStop(iter, ret, hookOk, e)
  /\ iter' = IF stop' = "none" THEN iter + 1 ELSE iter
  /\ nodes' = n

NextRunner == \E ret, hookOk \in BOOLEAN, n \in 0..MaxNodes, e \in 0..MaxClock : RunOne(ret, hookOk, n, e)
NextEqsat  == \E ret, hookOk \in BOOLEAN, n \in 0..MaxNodes, e \in 0..MaxClock : EqsatStep(ret, hookOk, n, e)

SpecRunner == Init /\ [][NextRunner]_vars /\ WF_vars(NextRunner)
SpecEqsat  == Init /\ [][NextEqsat]_vars /\ WF_vars(NextEqsat)

(* the loop ends within the configured bound plus a fixed constant          *)
BoundedRunner == iter <= IterLimit + 2
BoundedEqsat  == iter <= IterLimit
TypeOK == stop \in Reasons \cup {"none"}
(* every reason other than saturation is true of the final state            *)
TruthRunner == /\ (stop = "iter" => iter - 1 > IterLimit)
               /\ (stop = "node" => nodes > NodeLimit)
               /\ (stop = "time" => clock > TimeLimit)
TruthEqsat  == /\ (stop = "iter" => iter >= IterLimit)
               /\ (stop = "time" => clock >= TimeLimit)
(* a limit that is surely exceeded does stop the loop                       *)
MustStopRunner == clock > TimeLimit => stop # "none"
MustStopEqsat  == clock >= TimeLimit => stop # "none"
Terminates == <>(stop # "none")
=============================================================================
