----------------------------- MODULE RunnerOps -----------------------------
(* The stop decisions of Runner::run_one and run_eqsat as pure operators     *)
(* (shared by Runner.tla and the trace specification TraceRewrite.tla).      *)
(* Time is in milliseconds: e = the time that has elapsed on the loop's own  *)
(* clock when the limits are looked at.                                      *)
EXTENDS Naturals, TLC

(* it = number of iterations finished BEFORE this one *)
(* Runner::run_one: hooks -> limits (iterations, nodes, time: strictly more  *)
(* than the limit) -> saturation                                             *)
RunnerStopL(iterLimit, nodeLimit, timeLimit, it, ret, hookOk, n, e) ==
  IF ~hookOk THEN "other"
  ELSE IF it > iterLimit THEN "iter"
  ELSE IF n > nodeLimit THEN "node"
  ELSE IF e > timeLimit THEN "time"
  ELSE IF ~ret THEN "saturated"
  ELSE "none"

(* run_eqsat: hook -> saturated? -> iterations >= iter_limit -> whole        *)
(* seconds elapsed >= time_limit (the limit is given in seconds)             *)
EqsatStopL(iterLimit, timeLimit, it, ret, hookOk, e) ==
  IF ~hookOk THEN "other"
  ELSE IF ~ret THEN "saturated"
  ELSE IF it >= iterLimit THEN "iter"
  ELSE IF e >= timeLimit THEN "time"
  ELSE "none"
=============================================================================
