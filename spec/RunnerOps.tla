----------------------------- MODULE RunnerOps -----------------------------
(* The stop decisions of Runner::run_one and run_eqsat as pure operators     *)
(* (shared by Runner.tla and the trace specification TraceRewrite.tla).      *)
EXTENDS Naturals, TLC

(* it = number of iterations finished BEFORE this one *)
RunnerStopL(iterLimit, nodeLimit, it, ret, hookOk, n) ==
  IF ~hookOk THEN "other"
  ELSE IF it > iterLimit THEN "iter"
  ELSE IF n > nodeLimit THEN "node"
  ELSE IF ~ret THEN "saturated"
  ELSE "none"

EqsatStopL(iterLimit, it, ret, hookOk) ==
  IF ~hookOk THEN "other"
  ELSE IF ~ret THEN "saturated"
  ELSE IF it >= iterLimit THEN "iter"
  ELSE "none"
=============================================================================
