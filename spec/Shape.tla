------------------------------- MODULE Shape -------------------------------
(***************************************************************************)
(* E-nodes of a define_language! language and their canonical shape.       *)
(* An e-node is [op, sl, ch, ps] (sl: direct slot fields before the         *)
(* children, ps: direct slot fields AFTER them) with ch a sequence of       *)
(*     [bd |-> Seq(Name), id |-> Nat, args |-> Seq(Name)]                  *)
(* i.e. per child the binders over it (Bind<Bind<..>> = several) and the   *)
(* child invocation: class id and its argument slots in parameter order.   *)
(* Reference semantics with correctly SCOPED binders:                      *)
(*   occurrence list, public / private occurrences, free slots, and the    *)
(*   reference shape (names -> numbers by first occurrence, a binder's     *)
(*   number is only valid inside its scope).                               *)
(* Two nodes are equal modulo injective renaming of free slots and alpha-  *)
(* renaming of bound slots  iff  their RefShape is equal.                  *)
(***************************************************************************)
EXTENDS Naturals, Sequences, FiniteSets, TLC

Range(f) == {f[i] : i \in DOMAIN f}
RECURSIVE Concat(_)
Concat(ss) == IF ss = << >> THEN << >> ELSE Head(ss) \o Concat(Tail(ss))

(* occurrences: <<name, public?>> in the order the derived impl lists them *)
ChildOcc(c) == [i \in 1..Len(c.bd) |-> <<c.bd[i], FALSE>>] \o
               [i \in 1..Len(c.args) |-> <<c.args[i], c.args[i] \notin Range(c.bd)>>]
Occ(n) == [i \in 1..Len(n.sl) |-> <<n.sl[i], TRUE>>] \o
          Concat([k \in 1..Len(n.ch) |-> ChildOcc(n.ch[k])]) \o
          [i \in 1..Len(n.ps) |-> <<n.ps[i], TRUE>>]
AllOcc(n)  == [i \in 1..Len(Occ(n)) |-> Occ(n)[i][1]]
PubOcc(n)  == LET o == SelectSeq(Occ(n), LAMBDA p : p[2]) IN [i \in 1..Len(o) |-> o[i][1]]
PrivOcc(n) == LET o == SelectSeq(Occ(n), LAMBDA p : ~p[2]) IN [i \in 1..Len(o) |-> o[i][1]]
Slots(n)   == Range(PubOcc(n))

(***************************************************************************)
(* Reference shape.  st = [env, cnt]: env maps free names seen so far to    *)
(* numbers (persistent), cnt = next number.  Numbers start at 0 like the    *)
(* library's ($0, $1, ..), but only the induced equivalence is compared.    *)
(***************************************************************************)
Lookup(env, x) == env[x]
Bind1(env, x, v) == [y \in (DOMAIN env) \cup {x} |-> IF y = x THEN v ELSE env[y]]

RECURSIVE NumSeq(_, _, _)
(* number the names of s (free occurrences), allocating on first sight       *)
NumSeq(s, env, cnt) ==
  IF s = << >> THEN [out |-> << >>, env |-> env, cnt |-> cnt]
  ELSE LET x == Head(s) IN
       IF x \in DOMAIN env
       THEN LET r == NumSeq(Tail(s), env, cnt) IN [out |-> <<env[x]>> \o r.out, env |-> r.env, cnt |-> r.cnt]
       ELSE LET r == NumSeq(Tail(s), Bind1(env, x, cnt), cnt + 1) IN
            [out |-> <<cnt>> \o r.out, env |-> r.env, cnt |-> r.cnt]

RECURSIVE NumArgs(_, _, _, _)
(* arguments of a child: bound names through the scope `sc`, free ones through env *)
NumArgs(s, sc, env, cnt) ==
  IF s = << >> THEN [out |-> << >>, env |-> env, cnt |-> cnt]
  ELSE LET x == Head(s) IN
       IF x \in DOMAIN sc
       THEN LET r == NumArgs(Tail(s), sc, env, cnt) IN [out |-> <<sc[x]>> \o r.out, env |-> r.env, cnt |-> r.cnt]
       ELSE IF x \in DOMAIN env
       THEN LET r == NumArgs(Tail(s), sc, env, cnt) IN [out |-> <<env[x]>> \o r.out, env |-> r.env, cnt |-> r.cnt]
       ELSE LET r == NumArgs(Tail(s), sc, Bind1(env, x, cnt), cnt + 1) IN
            [out |-> <<cnt>> \o r.out, env |-> r.env, cnt |-> r.cnt]

RECURSIVE NumBinders(_, _, _)
NumBinders(bd, sc, cnt) ==
  IF bd = << >> THEN [out |-> << >>, sc |-> sc, cnt |-> cnt]
  ELSE LET r == NumBinders(Tail(bd), Bind1(sc, Head(bd), cnt), cnt + 1) IN
       [out |-> <<cnt>> \o r.out, sc |-> r.sc, cnt |-> r.cnt]

RECURSIVE NumCh(_, _, _)
NumCh(ch, env, cnt) ==
  IF ch = << >> THEN [out |-> << >>, env |-> env, cnt |-> cnt]
  ELSE LET c  == Head(ch)
           b  == NumBinders(c.bd, << >>, cnt)
           a  == NumArgs(c.args, b.sc, env, b.cnt)
           r  == NumCh(Tail(ch), a.env, a.cnt)
       IN [out |-> <<[bd |-> b.out, id |-> c.id, args |-> a.out]>> \o r.out, env |-> r.env, cnt |-> r.cnt]

RefShapeFull(n) ==
  LET s == NumSeq(n.sl, << >>, 0)
      c == NumCh(n.ch, s.env, s.cnt)
      q == NumSeq(n.ps, c.env, c.cnt)       \* a slot field after the children: the binders' scopes have ended
  IN [shape |-> [op |-> n.op, sl |-> s.out, ch |-> c.out, ps |-> q.out], env |-> q.env]

RefShape(n) == RefShapeFull(n).shape
(* number -> original free name *)
RefBij(n) == LET e == RefShapeFull(n).env IN [v \in Range(e) |-> CHOOSE x \in DOMAIN e : e[x] = v]

(* rename ALL names of a node by a function (total on its names)            *)
RenNode(n, m) ==
  [op |-> n.op, sl |-> [i \in DOMAIN n.sl |-> m[n.sl[i]]],
   ch |-> [k \in DOMAIN n.ch |->
      [bd |-> [i \in DOMAIN n.ch[k].bd |-> m[n.ch[k].bd[i]]], id |-> n.ch[k].id,
       args |-> [i \in DOMAIN n.ch[k].args |-> m[n.ch[k].args[i]]]]],
   ps |-> [i \in DOMAIN n.ps |-> m[n.ps[i]]]]

(* apply a map to the PUBLIC occurrences only (Language::apply_slotmap)      *)
ApplyPub(n, m) ==
  [op |-> n.op, sl |-> [i \in DOMAIN n.sl |-> m[n.sl[i]]],
   ch |-> [k \in DOMAIN n.ch |->
      [bd |-> n.ch[k].bd, id |-> n.ch[k].id,
       args |-> [i \in DOMAIN n.ch[k].args |->
                   IF n.ch[k].args[i] \in Range(n.ch[k].bd) THEN n.ch[k].args[i] ELSE m[n.ch[k].args[i]]]]],
   ps |-> [i \in DOMAIN n.ps |-> m[n.ps[i]]]]

Equiv(n1, n2) == RefShape(n1) = RefShape(n2)
(* alpha-equivalence only: same shape AND same free names at the same places *)
AlphaEqNode(n1, n2) == RefShape(n1) = RefShape(n2) /\ RefBij(n1) = RefBij(n2)

NodeNames(n) == Range(AllOcc(n))
(* does some name occur both free and bound in n (a binder shadowing a free use)? *)
Collides(n) == Slots(n) \cap Range(PrivOcc(n)) # {}
=============================================================================
