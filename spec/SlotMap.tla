------------------------------ MODULE SlotMap ------------------------------
(***************************************************************************)
(* Reference semantics of slotted_egraphs::SlotMap: a finite partial map   *)
(* from slots to slots, as a TLA+ function.  One action per mutating       *)
(* public operation; every other public operation is a state function.     *)
(* Slots are naturals; slots >= FreshBase stand for slots obtained from    *)
(* Slot::fresh() (compose_fresh): only their being new and pairwise        *)
(* distinct is specified, never their identity.                            *)
(***************************************************************************)
EXTENDS Naturals, Sequences, FiniteSets, TLC

CONSTANTS S           \* the user slots of the model

VARIABLE m            \* the current map

Empty == << >>
Maps  == UNION {[D -> S] : D \in SUBSET S}

Keys(a)     == DOMAIN a
Values(a)   == {a[k] : k \in DOMAIN a}
Get(a, k)   == IF k \in DOMAIN a THEN <<a[k]>> ELSE << >>      \* Option as a 0/1 sequence
Len_(a)     == Cardinality(DOMAIN a)
IsBij(a)    == \A x, y \in DOMAIN a : a[x] = a[y] => x = y
IsPerm(a)   == IsBij(a) /\ Keys(a) = Values(a)
Ins(a, k, v) == [x \in (DOMAIN a) \cup {k} |-> IF x = k THEN v ELSE a[x]]
Rem(a, k)    == [x \in (DOMAIN a) \ {k} |-> a[x]]
SmInverse(a)  == [y \in Values(a) |-> CHOOSE x \in DOMAIN a : a[x] = y]   \* only for bijections
(* inverse() of a map that is NOT injective (accepted by the default build; the checks build asserts the      *)
(* precondition): whatever is returned must again be a finite map - given as its sequence of pairs ps - and a  *)
(* section of a: one entry per value of a, each sent back to a key that a maps to it                            *)
IsSection(a, ps) ==
  /\ \A i, j \in DOMAIN ps : ps[i][1] = ps[j][1] => i = j
  /\ {ps[i][1] : i \in DOMAIN ps} = Values(a)
  /\ \A i \in DOMAIN ps : ps[i][2] \in DOMAIN a /\ a[ps[i][2]] = ps[i][1]
Identity(D) == [x \in D |-> x]
(* self :: X -> Y, other :: Y -> Z; compose_partial drops keys whose image  *)
(* is not a key of other; compose is the same function with the            *)
(* precondition Values(a) = Keys(b)                                         *)
ComposePartial(a, b) == [x \in {k \in DOMAIN a : a[k] \in DOMAIN b} |-> b[a[x]]]
ComposeDefined(a, b) == Values(a) = Keys(b)
(* compose_fresh: same keys as a; where b is undefined a brand-new slot     *)
FreshKeys(a, b)      == {k \in DOMAIN a : a[k] \notin DOMAIN b}
Compatible(a, b)     == \A k \in (DOMAIN a) \cap (DOMAIN b) : a[k] = b[k]
Union_(a, b)         == [x \in (DOMAIN a) \cup (DOMAIN b) |-> IF x \in DOMAIN b THEN b[x] ELSE a[x]]

AsPairs(a) == {<<k, a[k]>> : k \in DOMAIN a}

(* construction from a listing of pairs (from_pairs, collect / FromIterator, *)
(* From<[_; N]>): the pairs are inserted one after the other.  For a listing *)
(* with pairwise distinct keys the result does not depend on its order       *)
(* (LawFromSeq).                                                             *)
RECURSIVE FromSeq(_)
FromSeq(s) == IF s = << >> THEN Empty
              ELSE Ins(FromSeq(SubSeq(s, 1, Len(s) - 1)), s[Len(s)][1], s[Len(s)][2])

Init == m = Empty
SmInsert(k, v) == m' = Ins(m, k, v)
SmRemove(k)    == m' = Rem(m, k)
Next == (\E k, v \in S : SmInsert(k, v)) \/ (\E k \in S : SmRemove(k))
Spec == Init /\ [][Next]_m

TypeOK == m \in Maps

(* laws of the reference itself (checked by TLC over all maps on a slot set) *)
MapsOn(D) == UNION {[E -> D] : E \in SUBSET D}
BijsOn(D) == {a \in MapsOn(D) : IsBij(a)}
LawInverseInverse(D) == \A a \in BijsOn(D) : SmInverse(SmInverse(a)) = a
LawInverseCompose(D) == \A a \in BijsOn(D) : ComposePartial(a, SmInverse(a)) = Identity(Keys(a))
LawAssoc(D) == \A a, b, c \in BijsOn(D) :
              ComposePartial(ComposePartial(a, b), c) = ComposePartial(a, ComposePartial(b, c))
LawAssocAll(D) == \A a, b, c \in MapsOn(D) :
              ComposePartial(ComposePartial(a, b), c) = ComposePartial(a, ComposePartial(b, c))
LawUnionCompat(D) == \A a, b \in MapsOn(D) : Compatible(a, b) => Union_(a, b) = Union_(b, a)
Listings(X) == {s \in [1..Cardinality(X) -> X] : \A i, j \in DOMAIN s : s[i] = s[j] => i = j}
LawFromSeq(D) == \A a \in MapsOn(D) : \A s \in Listings(AsPairs(a)) : FromSeq(s) = a
LawIdentity(D) == \A a \in MapsOn(D) : ComposePartial(Identity(Keys(a)), a) = a
                                       /\ ComposePartial(a, Identity(Values(a))) = a
=============================================================================
