----------------------------- MODULE SlotTable -----------------------------
(***************************************************************************)
(* The thread-local slot table of slotted_egraphs (src/slot.rs) as an      *)
(* abstract state machine.  A slot is identified abstractly by             *)
(*    <<"num", digits>>   numeric slot  $<n>                                *)
(*    <<"f",   digits>>   fresh-style slot $f<n>                            *)
(*    <<"txt", chars>>    any other textual name                            *)
(* (digits / chars are sequences of one-character strings; digits are the   *)
(* canonical decimal representation).  The u32 encoding is representation. *)
(*                                                                         *)
(* State: ctr = index of the next slot Slot::fresh() will return, hist =    *)
(* the calls made so far with their results.                                *)
(***************************************************************************)
EXTENDS Naturals, Sequences, FiniteSets, TLC

CONSTANTS NameAlphabet,   \* set of names (char sequences) that may be parsed
          NumAlphabet,    \* set of naturals for Slot::numeric
          MaxDepth

VARIABLES ctr, hist
vars == <<ctr, hist>>

Digits == <<"0", "1", "2", "3", "4", "5", "6", "7", "8", "9">>
DigitSet == {Digits[i] : i \in 1..10}
DigVal(c) == (CHOOSE i \in 1..10 : Digits[i] = c) - 1

IsDigits(s)    == Len(s) > 0 /\ \A i \in 1..Len(s) : s[i] \in DigitSet
CanonDigits(s) == IsDigits(s) /\ (Len(s) = 1 \/ s[1] # "0")
RECURSIVE Val(_)
Val(s) == IF s = << >> THEN 0 ELSE 10 * Val(SubSeq(s, 1, Len(s) - 1)) + DigVal(s[Len(s)])
RECURSIVE ToDigits(_)
ToDigits(k) == IF k < 10 THEN <<Digits[k + 1]>> ELSE Append(ToDigits(k \div 10), Digits[(k % 10) + 1])

(* which slot a textual name denotes: DISTINCT NAMES DENOTE DISTINCT SLOTS,  *)
(* so a digit string that is not the canonical spelling of its value         *)
(* ("007", "+7") is a name of its own, not an alias of the number            *)
(* the u32 encoding (numeric: 4n, fresh style: 4n+1, the counter moves to 4n+5) holds only     *)
(* numbers up to these bounds; a digit string beyond them is an ordinary textual name            *)
(* (compared as digit strings: TLC integers are 32 bit)                                          *)
MaxNumDigits == <<"1", "0", "7", "3", "7", "4", "1", "8", "2", "3">>      \* 2^30 - 1
MaxFDigits   == <<"1", "0", "7", "3", "7", "4", "1", "8", "2", "2">>      \* 2^30 - 2
RECURSIVE LexLeq(_, _)
LexLeq(a, b) == IF a = << >> THEN TRUE
                ELSE IF DigVal(a[1]) # DigVal(b[1]) THEN DigVal(a[1]) < DigVal(b[1])
                ELSE LexLeq(Tail(a), Tail(b))
Fits(d, bound) == Len(d) < Len(bound) \/ (Len(d) = Len(bound) /\ LexLeq(d, bound))

Classify(s) ==
  IF CanonDigits(s) /\ Fits(s, MaxNumDigits) THEN <<"num", s>>
  ELSE IF Len(s) > 1 /\ s[1] = "f" /\ CanonDigits(Tail(s)) /\ Fits(Tail(s), MaxFDigits) THEN <<"f", Tail(s)>>
  ELSE <<"txt", s>>

(* the name printed for a slot (without the leading dollar sign)             *)
NameOf(sl) == IF sl[1] = "f" THEN <<"f">> \o sl[2] ELSE sl[2]

Entry(op, arg, res) == [op |-> op, arg |-> arg, res |-> res, name |-> NameOf(res)]

Init == ctr = 0 /\ hist = << >>

Fresh == /\ hist' = Append(hist, Entry("fresh", << >>, <<"f", ToDigits(ctr)>>))
         /\ ctr' = ctr + 1

Numeric(u) == /\ hist' = Append(hist, Entry("numeric", ToDigits(u), <<"num", ToDigits(u)>>))
              /\ UNCHANGED ctr

Named(s) == LET sl == Classify(s) IN
            /\ hist' = Append(hist, Entry("named", s, sl))
            /\ ctr' = IF sl[1] = "f" /\ Val(sl[2]) >= ctr THEN Val(sl[2]) + 1 ELSE ctr

Next == /\ Len(hist) < MaxDepth
        /\ \/ Fresh
           \/ \E u \in NumAlphabet : Numeric(u)
           \/ \E s \in NameAlphabet : Named(s)

Spec == Init /\ [][Next]_vars

(***************************************************************************)
(* C17 on the model                                                         *)
(***************************************************************************)
(* a fresh slot was never obtained before by any means                      *)
FreshIsNew == \A i \in 1..Len(hist) : hist[i].op = "fresh" =>
                 \A j \in 1..(i - 1) : hist[j].res # hist[i].res
(* inductive core: every fresh-style slot ever obtained lies below ctr      *)
BelowCtr == \A i \in 1..Len(hist) : hist[i].res[1] = "f" => Val(hist[i].res[2]) < ctr
(* distinct names denote distinct slots                                     *)
NamesInjective == \A i, j \in 1..Len(hist) :
                    hist[i].res = hist[j].res <=> hist[i].name = hist[j].name
NamedInjective == \A s, t \in NameAlphabet : Classify(s) = Classify(t) => s = t
(* printing and parsing back gives the same slot                            *)
RoundTrip == \A i \in 1..Len(hist) : Classify(hist[i].name) = hist[i].res
=============================================================================
