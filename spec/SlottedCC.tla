----------------------------- MODULE SlottedCC -----------------------------
(***************************************************************************)
(* THE core specification: slotted congruence closure.                     *)
(*                                                                         *)
(* Abstract state of an e-graph as a user observes it: the set of asserted *)
(* equations `eqs` (indices into EqPool; both sides are thereby inserted)  *)
(* and the congruence they generate.  The congruence is represented        *)
(* concretely as a partition `part` of a finite *ground universe*: all     *)
(* images, under ALL bijections of the name pool 1..N (acting on bound     *)
(* names too, hence capture-free), of all subterms of the term pool.       *)
(*                                                                         *)
(* One action = one public call that runs to quiescence (union / rule      *)
(* instance); insertions, lookups, eq, extraction, matching are reads.     *)
(*                                                                         *)
(* Closure = least partition that                                           *)
(*   - identifies alpha-equivalent terms                       (seed)      *)
(*   - contains every bijection image of every asserted equation (seed)    *)
(*   - is a congruence: same operator, same direct slots, same binder      *)
(*     names and pairwise equal children  =>  equal       (signature step) *)
(* Equivariance (closure under injective renaming of free slots) holds by  *)
(* construction because universe and seeds are closed under bijections.    *)
(***************************************************************************)
EXTENDS Terms, SequencesExt

CONSTANTS N,          \* size of the name pool
          TermPool,   \* sequence of base terms
          EqPool,     \* sequence of <<i, j>>: indices into TermPool
          MaxEqs,     \* bound on |eqs|
          InsBase     \* set of indices of TermPool inserted up front

VARIABLES eqs,        \* SUBSET DOMAIN EqPool : the equations asserted so far
          part        \* label function over the universe, maintained incrementally

vars == <<eqs, part>>

Pool == 1..N
Bij  == Permutations(Pool)

(***************************************************************************)
(* The ground universe and constant tables over it (evaluated once).        *)
(***************************************************************************)
BaseSub0 == UNION {Subterms(TermPool[i]) : i \in DOMAIN TermPool}

(***************************************************************************)
(* The signature step below compares binder NAMES, so two congruent nodes   *)
(* lam x. A ~ lam y. B are merged through alpha-variants that use the same  *)
(* binder name.  Bijection images provide every alpha-variant of a node     *)
(* EXCEPT when the binder's name also occurs free in a sibling child, e.g.  *)
(* (let x body[x] value[x]): a bijection renames both occurrences alike.    *)
(* The universe is therefore closed under renaming the ROOT binders of      *)
(* every subterm to any names z that are not free in that child outside the *)
(* binders (the renaming is realised by a bijection, so the renamed child   *)
(* is an image of the old child and needs no further closing).              *)
(***************************************************************************)
ZSeqs(m) == {z \in [1..m -> Pool] : \A p, q \in 1..m : z[p] = z[q] => p = q}
RenChild(c, z) ==
  LET bdn  == Range(c.bd)
      tgt  == [b \in bdn |-> z[LastPos(c.bd, b)]]
      tset == {tgt[b] : b \in bdn}
      pi   == CHOOSE b \in Bij : /\ \A x \in bdn : b[x] = tgt[x]
                                  /\ \A y \in Pool \ (bdn \cup tset) : b[y] = y
  IN [bd |-> z, t |-> Ren(c.t, pi)]
RootVariants(s) ==
  UNION {{[op |-> s.op, sl |-> s.sl, ch |-> [j \in DOMAIN s.ch |-> IF j = k THEN RenChild(s.ch[k], z) ELSE s.ch[j]]] :
            z \in {y \in ZSeqs(Len(s.ch[k].bd)) :
                     {y[p] : p \in DOMAIN y} \cap (FV(s.ch[k].t) \ Range(s.ch[k].bd)) = {}}} :
         k \in {j \in DOMAIN s.ch : s.ch[j].bd # << >>}}
BaseSub == BaseSub0 \cup UNION {RootVariants(s) : s \in BaseSub0}
US      == UNION {{Ren(s, b) : b \in Bij} : s \in BaseSub}
us      == SetToSeq(US)
n       == Len(us)
U       == 1..n
idx     == [t \in US |-> CHOOSE i \in U : us[i] = t]

chidx   == [i \in U |-> [k \in DOMAIN us[i].ch |-> idx[us[i].ch[k].t]]]
head    == [i \in U |-> <<us[i].op, us[i].sl,
                          [k \in DOMAIN us[i].ch |-> us[i].ch[k].bd]>>]
canon   == [i \in U |-> Canon(us[i])]
shapeA  == [i \in U |-> ShapeAll(us[i])]

(* alpha classes: the initial partition                                     *)
lab0    == [i \in U |-> MinOf({j \in U : canon[j] = canon[i]})]
(* renaming class of a universe term (images under bijections of all names) *)
rencls  == [i \in U |-> MinOf({j \in U : shapeA[j] = shapeA[i]})]

NonLeaf == {i \in U : us[i].ch # << >>}
Groups  == {g \in {{j \in NonLeaf : head[j] = head[i]} : i \in NonLeaf} :
              Cardinality(g) > 1}
GroupPairs == UNION {{p \in g \X g : p[1] < p[2]} : g \in Groups}

(* images of all subterms of pool term ti                                   *)
TermImg == [ti \in DOMAIN TermPool |->
              {idx[Ren(s, b)] : s \in Subterms(TermPool[ti]), b \in Bij}]
(* all ground instances of pool equation e, as index pairs                  *)
EqEdges == [e \in DOMAIN EqPool |->
              {<<idx[Ren(TermPool[EqPool[e][1]], b)],
                 idx[Ren(TermPool[EqPool[e][2]], b)]>> : b \in Bij}]

(***************************************************************************)
(* Partition manipulation: labels are the least index of the class.         *)
(***************************************************************************)
RECURSIVE ApplyPairs(_, _)
ApplyPairs(lab, P) ==
  LET PP == {p \in P : p[1] # p[2]} IN
  IF PP = {} THEN lab
  ELSE
    LET L == {p[1] : p \in PP} \cup {p[2] : p \in PP}
        m == TLCEval([l \in L |->
               MinOf({l} \cup {p[2] : p \in {q \in PP : q[1] = l}}
                         \cup {p[1] : p \in {q \in PP : q[2] = l}})])
        lab1 == TLCEval([i \in U |-> IF lab[i] \in L THEN m[lab[i]] ELSE lab[i]])
    IN ApplyPairs(lab1, {<<m[p[1]], m[p[2]]>> : p \in PP})

SameSig(lab, i, j) ==
  \A k \in DOMAIN chidx[i] : lab[chidx[i][k]] = lab[chidx[j][k]]

SigPairs(lab) ==
  {<<lab[p[1]], lab[p[2]]>> :
      p \in {q \in GroupPairs : lab[q[1]] # lab[q[2]] /\ SameSig(lab, q[1], q[2])}}

RECURSIVE Fix(_)
Fix(lab) ==
  LET P == SigPairs(lab) IN
  IF P = {} THEN lab ELSE Fix(ApplyPairs(lab, P))

EdgePairs(lab, E) == {<<lab[p[1]], lab[p[2]]>> : p \in E}

(* incremental: close `lab` together with one more equation                 *)
Merge(lab, e) == Fix(ApplyPairs(lab, EdgePairs(lab, EqEdges[e])))

(* batch: closure of a set of equations from scratch                        *)
Closure(E) ==
  Fix(ApplyPairs(lab0, EdgePairs(lab0, UNION {EqEdges[e] : e \in E})))

(***************************************************************************)
(* Derived observations                                                     *)
(***************************************************************************)
Ins(E)    == InsBase \cup UNION {{EqPool[e][1], EqPool[e][2]} : e \in E}
InsU(E)   == UNION {TermImg[ti] : ti \in Ins(E)}
RepLab(lab, E) == {lab[i] : i \in InsU(E)}

(* a universe term is *represented* iff its class contains (an image of a   *)
(* subterm of) an inserted term                                             *)
Represented(lab, E, i) == lab[i] \in RepLab(lab, E)

(* ClassOf for terms of the universe (0 = not represented)                  *)
ClassOf(lab, E, i) == IF Represented(lab, E, i) THEN lab[i] ELSE 0

Eq(lab, i, j) == lab[i] = lab[j]

(* x is redundant in t iff t is congruent to t with x replaced by a name z  *)
(* not free in t.  Needs N > |FV(t)|.                                       *)
Spare(t) == CHOOSE z \in Pool : z \notin FV(t)
NonRed(lab, t) ==
  IF FV(t) = Pool THEN FV(t)   \* no spare name: cannot decide, assume none redundant
  ELSE {x \in FV(t) : lab[idx[t]] # lab[idx[Swap(t, x, Spare(t))]]}

(* symmetries of t: permutations of its non-redundant free names that keep  *)
(* it in its class                                                          *)
Syms(lab, t) ==
  LET nr == NonRed(lab, t) IN
  {b \in Bij : (\A x \in Pool \ nr : b[x] = x) /\ lab[idx[Ren(t, b)]] = lab[idx[t]]}

(* number of live e-classes: classes of inserted terms modulo renaming      *)
OrbitKey(lab, l) == MinOf({rencls[i] : i \in {j \in U : lab[j] = l}})
NumClasses(lab, E) == Cardinality({OrbitKey(lab, l) : l \in RepLab(lab, E)})

(***************************************************************************)
(* Extraction and analyses: least fixpoints over the e-node structure of    *)
(* the partition.  The e-nodes of class L are the signatures                *)
(* (operator, child classes) of its member terms; cost(L) = min over its    *)
(* e-nodes of CostOf(operator, costs of the child classes).  Cost functions *)
(* are named; the Rust harness implements the same four (CostFunction /     *)
(* Analysis) - they are slot independent, so only class structure matters.  *)
(***************************************************************************)
INF == 1000000
RECURSIVE SumS(_)
SumS(s) == IF s = << >> THEN 0 ELSE Head(s) + SumS(Tail(s))
MaxS(s) == IF s = << >> THEN 0 ELSE MaxOf(Range(s))
OpWeight(op) == CASE op = "f" -> 3 [] op = "f3" -> 3 [] op = "c" -> 4 [] op = "h" -> 2 [] op = "lam" -> 5
                  [] op = "let" -> 2 [] op = "k" -> 2 [] op = "sum" -> 3 [] OTHER -> 1
CostOf(name, op, cs) ==
  CASE name = "astsize" -> 1 + SumS(cs)
    [] name = "w2"      -> 1 + 2 * SumS(cs)
    [] name = "opw"     -> OpWeight(op) + SumS(cs)
    [] name = "depth"   -> 1 + MaxS(cs)
Cap(x) == IF x > INF THEN INF ELSE x

CostNames == <<"astsize", "w2", "opw", "depth">>

RECURSIVE CostFix(_, _, _, _)
CostFix(name, lab, mem, c) ==
  LET c2 == TLCEval([L \in DOMAIN mem |->
               MinOf({Cap(CostOf(name, us[i].op, [k \in DOMAIN chidx[i] |-> c[lab[chidx[i][k]]]])) : i \in mem[L]})])
  IN IF c2 = c THEN c ELSE CostFix(name, lab, mem, c2)

Members(lab) == TLCEval([L \in Range(lab) |-> {i \in U : lab[i] = L}])
MinCost(name, lab) ==
  LET mem == Members(lab) IN CostFix(name, lab, mem, [L \in DOMAIN mem |-> INF])

(* A join-semilattice analysis in which EVERY e-node contributes (not only   *)
(* the best one): the set of leaf operators below a class.  make(leaf) =     *)
(* {operator}, make(node) = union of the children's data, merge = union;     *)
(* the datum of a class is the least fixpoint over its e-nodes (C14).        *)
RECURSIVE LeafFix(_, _, _)
LeafFix(lab, mem, s) ==
  LET s2 == TLCEval([L \in DOMAIN mem |->
               UNION {IF chidx[i] = << >> THEN LeafDatum(us[i].op)
                      ELSE NodeDatum(UNION {s[lab[chidx[i][k]]] : k \in DOMAIN chidx[i]}) : i \in mem[L]}])
  IN IF s2 = s THEN s ELSE LeafFix(lab, mem, s2)
LeafOps(lab) == LET mem == Members(lab) IN LeafFix(lab, mem, [L \in DOMAIN mem |-> {}])

(***************************************************************************)
(* The state machine                                                        *)
(***************************************************************************)
Init == eqs = {} /\ part = lab0

Union(e) == /\ e \notin eqs
            /\ Cardinality(eqs) < MaxEqs
            /\ eqs' = eqs \cup {e}
            /\ part' = Merge(part, e)

Next == \E e \in DOMAIN EqPool : Union(e)

Spec == Init /\ [][Next]_vars

(***************************************************************************)
(* Properties of the specification itself (checked by TLC)                  *)
(***************************************************************************)
TypeOK == eqs \subseteq DOMAIN EqPool /\ DOMAIN part = U

(* C12 (spec level): incremental closure in any order = batch closure       *)
IncrementalIsBatch == part = Closure(eqs)

(* labels are class minima                                                  *)
Normal == \A i \in U : part[i] <= i /\ part[part[i]] = part[i]

(* C01/C02 sanity: the partition is a congruence, contains the seeds        *)
ContainsSeeds ==
  /\ \A i \in U : part[i] = part[lab0[i]]
  /\ \A e \in eqs : \A p \in EqEdges[e] : part[p[1]] = part[p[2]]
Congruent == \A p \in GroupPairs : SameSig(part, p[1], p[2]) => part[p[1]] = part[p[2]]

(* equivariance: renaming both terms by the same bijection preserves        *)
(* equality; checked on a sample of bijections (all transpositions generate)*)
Transp == {b \in Bij : Cardinality({x \in Pool : b[x] # x}) = 2}
bidx   == [b \in Transp |-> [i \in U |-> idx[Ren(us[i], b)]]]
Equivariant ==
  \A b \in Transp : \A i \in U : part[bidx[b][i]] = part[bidx[b][part[i]]]

(* C13 (spec level): equalities are never lost, slot sets only shrink       *)
Monotone == [][\A i \in U : part'[i] = part'[part[i]]]_vars

=============================================================================
