------------------------------- MODULE Terms -------------------------------
(***************************************************************************)
(* Term algebra with slots (names) and binders, shared by every            *)
(* specification module of the slotted-egraphs verification.                *)
(*                                                                         *)
(* A term is the record                                                    *)
(*   [op |-> STRING, sl |-> Seq(Name), ch |-> Seq([bd |-> Seq(Name),       *)
(*                                                  t  |-> Term])]         *)
(* op  operator, sl  the slots the node holds directly (in order), and per *)
(* child the (possibly empty, possibly nested) sequence of slots bound     *)
(* over that child.  Names are natural numbers.  The very same shape is    *)
(* the JSON encoding used by the Rust harness.                             *)
(***************************************************************************)
EXTENDS Naturals, Sequences, FiniteSets, TLC

Range(f) == {f[i] : i \in DOMAIN f}

MinOf(S) == CHOOSE x \in S : \A y \in S : x <= y
MaxOf(S) == CHOOSE x \in S : \A y \in S : x >= y

(* rename ALL names of t (free and bound) by the function m.  Capture-free  *)
(* exactly when m is injective on the names of t.                           *)
RECURSIVE Ren(_, _)
Ren(t, m) ==
  [op |-> t.op,
   sl |-> [i \in DOMAIN t.sl |-> m[t.sl[i]]],
   ch |-> [k \in DOMAIN t.ch |->
             [bd |-> [i \in DOMAIN t.ch[k].bd |-> m[t.ch[k].bd[i]]],
              t  |-> Ren(t.ch[k].t, m)]]]

RECURSIVE FV(_)
FV(t) == Range(t.sl) \cup
         UNION {FV(t.ch[k].t) \ Range(t.ch[k].bd) : k \in DOMAIN t.ch}

RECURSIVE Names(_)
Names(t) == Range(t.sl) \cup
            UNION {Names(t.ch[k].t) \cup Range(t.ch[k].bd) : k \in DOMAIN t.ch}

RECURSIVE Subterms(_)
Subterms(t) == {t} \cup UNION {Subterms(t.ch[k].t) : k \in DOMAIN t.ch}

RECURSIVE Size(_)
RECURSIVE SumSeq(_, _)
SumSeq(f, k) == IF k = 0 THEN 0 ELSE f[k] + SumSeq(f, k - 1)
Size(t) == 1 + SumSeq([k \in DOMAIN t.ch |-> Size(t.ch[k].t)], Len(t.ch))

RECURSIVE Depth(_)
Depth(t) == 1 + (IF t.ch = <<>> THEN 0
                 ELSE MaxOf({Depth(t.ch[k].t) : k \in DOMAIN t.ch}))

(***************************************************************************)
(* Canon: alpha-normal form.  Bound names are replaced by 1000000+level (de    *)
(* Bruijn levels), free names are kept.  Two terms are alpha-equivalent iff *)
(* their Canon is equal.  Nested binders Bind<Bind<..>> are the successive  *)
(* entries of bd; a later binder of the same name shadows an earlier one.   *)
(***************************************************************************)
LastPos(s, x) == MaxOf({i \in DOMAIN s : s[i] = x})

RECURSIVE CanonE(_, _, _)
CanonE(t, env, lvl) ==
  [op |-> t.op,
   sl |-> [i \in DOMAIN t.sl |->
             IF t.sl[i] \in DOMAIN env THEN env[t.sl[i]] ELSE t.sl[i]],
   ch |-> [k \in DOMAIN t.ch |->
             LET bd   == t.ch[k].bd
                 nb   == Len(bd)
                 env2 == [x \in (DOMAIN env) \cup Range(bd) |->
                            IF x \in Range(bd) THEN 1000000 + lvl + LastPos(bd, x)
                            ELSE env[x]]
             IN [bd |-> [i \in 1..nb |-> 1000000 + lvl + i],
                 t  |-> CanonE(t.ch[k].t, env2, lvl + nb)]]]

Canon(t) == CanonE(t, << >>, 0)

AlphaEq(t, u) == Canon(t) = Canon(u)

(***************************************************************************)
(* NameSeq: all names in order of first occurrence (binders included, at    *)
(* the position of the binder).  ShapeAll renames them to 1,2,3,...: two    *)
(* terms are images of each other under a bijection of ALL names iff their  *)
(* ShapeAll is equal.                                                       *)
(***************************************************************************)
RECURSIVE AppendNew(_, _)
AppendNew(acc, s) ==
  IF s = << >> THEN acc
  ELSE AppendNew(IF Head(s) \in Range(acc) THEN acc ELSE Append(acc, Head(s)), Tail(s))

RECURSIVE NameSeqAcc(_, _)
RECURSIVE NameSeqCh(_, _, _)
NameSeqCh(t, k, acc) ==
  IF k > Len(t.ch) THEN acc
  ELSE NameSeqCh(t, k + 1, NameSeqAcc(t.ch[k].t, AppendNew(acc, t.ch[k].bd)))
NameSeqAcc(t, acc) == NameSeqCh(t, 1, AppendNew(acc, t.sl))

NameSeq(t) == NameSeqAcc(t, << >>)

PosIn(s, x) == CHOOSE i \in DOMAIN s : s[i] = x

ShapeAll(t) ==
  LET ns == NameSeq(t)
      m  == [x \in Range(ns) |-> PosIn(ns, x)]
  IN Ren(t, m)

(* Free names in order of first free occurrence of the alpha-normal form.   *)
FreeSeq(t) ==
  LET ns == NameSeq(Canon(t)) IN SelectSeq(ns, LAMBDA x : x < 1000000)

(* renaming-normal form modulo alpha AND injective renaming of free names   *)
Shape(t) ==
  LET c  == Canon(t)
      fs == SelectSeq(NameSeq(c), LAMBDA x : x < 1000000)
      m  == [x \in Names(c) |-> IF x < 1000000 THEN PosIn(fs, x) ELSE x]
  IN Ren(c, m)

(***************************************************************************)
(* Patterns are terms whose leaves may be pattern variables: a leaf whose   *)
(* operator starts with "?" (op = "?a", no slots, no children).             *)
(* Inst(pat, sigma, rho): pattern variables replaced by the terms sigma     *)
(* gives them, pattern slots renamed by the injective map rho (free and     *)
(* bound pattern slots alike; the substituted terms are NOT renamed).       *)
(***************************************************************************)
IsPVar(t) == t.op \in {"?a", "?b", "?c"}

RECURSIVE Inst(_, _, _)
Inst(pat, sigma, rho) ==
  IF IsPVar(pat) THEN sigma[pat.op]
  ELSE [op |-> pat.op,
        sl |-> [i \in DOMAIN pat.sl |-> rho[pat.sl[i]]],
        ch |-> [k \in DOMAIN pat.ch |->
                  [bd |-> [i \in DOMAIN pat.ch[k].bd |-> rho[pat.ch[k].bd[i]]],
                   t  |-> Inst(pat.ch[k].t, sigma, rho)]]]

(* swap two names everywhere (a bijection, hence capture-free)              *)
Swap(t, x, z) ==
  Ren(t, [y \in Names(t) \cup {x, z} |-> IF y = x THEN z ELSE IF y = z THEN x ELSE y])

(***************************************************************************)
(* Height tags of the leaf-operator analysis (C14): besides the leaf        *)
(* operators below a class its datum holds "#k" for every k <= HCap such    *)
(* that the class has a term of height >= k along some path - a component  *)
(* in which an e-node that refers to its OWN class improves that class      *)
(* again and again (up to the cap).  Join = set union as before.            *)
(***************************************************************************)
HCap  == 6
HTags == <<"#1", "#2", "#3", "#4", "#5", "#6">>
HSucc(S) == {HTags[k + 1] : k \in {j \in 1..(HCap - 1) : HTags[j] \in S}}
LeafDatum(op) == {op, "#1"}
NodeDatum(S)  == S \cup HSucc(S)            \* S = union of the children's data
=============================================================================
