------------------------------- MODULE Threads -------------------------------
(***************************************************************************)
(* Reproducibility (C20): a main thread executes a fixed history while a    *)
(* noise thread does unrelated work.  What crosses threads in the library:  *)
(*   - the slot table (fresh counter, name interning) is THREAD LOCAL       *)
(*   - the symbol interner (GlobalSymbol) is GLOBAL: a symbol's index        *)
(*     depends on who interned first                                         *)
(*   - the wall clock is GLOBAL: how fast it advances depends on what the   *)
(*     machine is doing; a saturation run looks at it (time limit)           *)
(* The observable transcript of the main thread consists of slot names,     *)
(* symbol TEXTS, class ids ...; never of interner indices.  Invariant: the  *)
(* main thread's transcript after k operations is a function of its own     *)
(* program only, for every interleaving.                                     *)
(***************************************************************************)
EXTENDS Naturals, Sequences, FiniteSets, TLC

CONSTANTS MainProg,    \* sequence of operations <<kind, arg>>: "fresh" | "named" | "sym" | "egraph" | "timed"
          NoiseProg,
          TimeLimit    \* of the "timed" operation (a saturation run with a time limit), in clock ticks

VARIABLES pc,        \* [thread -> next operation index]
          ctr,       \* [thread -> thread-local fresh counter]
          names,     \* [thread -> thread-local sequence of interned slot names]
          syms,      \* GLOBAL sequence of interned symbols
          out,       \* [thread -> transcript]
          sched,     \* the interleaving so far (sequence of thread names)
          clock      \* GLOBAL wall clock: every operation of every thread takes one tick

vars == <<pc, ctr, names, syms, out, sched, clock>>
Thr == {"main", "noise"}
Prog(t) == IF t = "main" THEN MainProg ELSE NoiseProg

Intern(seq, s) == IF \E i \in DOMAIN seq : seq[i] = s THEN seq ELSE Append(seq, s)

(* what the thread observes for one operation, given ITS slot table *)
Observe(op, c, clk) ==
  CASE op[1] = "fresh"  -> <<"slot-f", c>>
    [] op[1] = "named"  -> <<"slot-txt", op[2]>>
    [] op[1] = "sym"    -> <<"sym-text", op[2]>>
    [] op[1] = "egraph" -> <<"egraph-used-fresh", c>>      \* an e-graph operation draws fresh slots
    [] op[1] = "timed"  -> <<"run-stopped", IF clk >= TimeLimit THEN "time" ELSE "limit-or-saturated">>

Init == /\ pc = [t \in Thr |-> 1] /\ ctr = [t \in Thr |-> 0] /\ names = [t \in Thr |-> << >>]
        /\ syms = << >> /\ out = [t \in Thr |-> << >>] /\ sched = << >> /\ clock = 0

Step(t) ==
  /\ pc[t] <= Len(Prog(t))
  /\ LET op == Prog(t)[pc[t]] IN
     /\ out' = [out EXCEPT ![t] = Append(@, Observe(op, ctr[t], clock))]
     /\ ctr' = [ctr EXCEPT ![t] = IF op[1] = "fresh" THEN @ + 1 ELSE IF op[1] = "egraph" THEN @ + 2 ELSE @]
     /\ names' = [names EXCEPT ![t] = IF op[1] = "named" THEN Intern(@, op[2]) ELSE @]
     /\ syms' = IF op[1] = "sym" THEN Intern(syms, op[2]) ELSE syms
  /\ pc' = [pc EXCEPT ![t] = @ + 1]
  /\ sched' = Append(sched, t)
  /\ clock' = clock + 1

Next == \E t \in Thr : Step(t)
Spec == Init /\ [][Next]_vars

(* the solo transcript of a program prefix *)
RECURSIVE Solo(_, _, _)
Solo(prog, k, c) ==
  IF k > Len(prog) THEN << >>
  ELSE <<Observe(prog[k], c, k - 1)>> \o
       Solo(prog, k + 1, IF prog[k][1] = "fresh" THEN c + 1 ELSE IF prog[k][1] = "egraph" THEN c + 2 ELSE c)

(* holds because the time limit is beyond anything the clock reaches (FarLimit): a run whose  *)
(* limit can be reached is not reproducible, and the property does not ask for it           *)
FarLimit == TimeLimit > Len(MainProg) + Len(NoiseProg)
Reproducible == out["main"] = SubSeq(Solo(MainProg, 1, 0), 1, pc["main"] - 1)
(* the interner index of a symbol DOES depend on the schedule - which is why it must not be observable *)
Done == pc["main"] > Len(MainProg) /\ pc["noise"] > Len(NoiseProg)
=============================================================================
