CONSTANTS
  Deg <- TraceDeg
  MaxGens <- TraceMaxGens
SPECIFICATION TraceSpec
POSTCONDITION TraceAccepted
CHECK_DEADLOCK FALSE
