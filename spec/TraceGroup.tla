----------------------------- MODULE TraceGroup -----------------------------
(* Trace validation for the permutation-group structure on 5 and 6 points    *)
(* (too many generator sets for an exhaustive table): every recorded case of *)
(* harness/src/bin/gr_replay.rs  (random generators, then a second AddSet)   *)
(* is re-computed with Group.tla by brute-force closure.                     *)
EXTENDS Group, Json, IOUtils, SequencesExt

VARIABLE l
Rec == ndJsonDeserialize(IOEnv.VERIF_TRACE)
ev  == Rec[l]
SeqSet(s) == {s[i] : i \in DOMAIN s}

Case ==
  LET n  == ev.deg
      H1 == TLCEval(GeneratedN(n, SeqSet(ev.gens)))
      H2 == TLCEval(GeneratedN(n, SeqSet(ev.gens) \cup SeqSet(ev.more)))
      Rest == TLCEval((1..n) \ Orbit(H2, ev.red))
  IN /\ ev.count1 = Cardinality(H1)
     /\ SeqSet(ev.all1) = H1 /\ Len(ev.all1) = Cardinality(H1)          \* no duplicates
     /\ \A i \in DOMAIN ev.probes : ev.probes[i][2] = (ev.probes[i][1] \in H1)
     /\ \A x \in 1..n : SeqSet(ev.orbits1[x]) = Orbit(H1, x)
     /\ ev.grew = (H2 # H1)
     /\ ev.count2 = Cardinality(H2)
     /\ SeqSet(ev.all2) = H2 /\ Len(ev.all2) = Cardinality(H2)
     /\ \A i \in DOMAIN ev.probes : ev.probes[i][3] = (ev.probes[i][1] \in H2)
     /\ (ev.viaegraph => /\ ev.eg_syms = Cardinality(H2)
                         /\ \A i \in DOMAIN ev.probes : ev.probes[i][4] = (ev.probes[i][1] \in H2))
     (* "restricted to non-redundant slots": once the slot at position ev.red is redundant, so is its whole orbit; the  *)
     (* class keeps the other positions Rest, its symmetries are the restrictions of H2 to Rest, and a permuted copy is  *)
     (* equal exactly when it agrees with a member of H2 on Rest                                                         *)
     /\ (ev.viaegraph =>
           /\ ev.eg_slots_red = Cardinality(Rest)
           /\ ev.eg_syms_red = Cardinality({[k \in Rest |-> h[k]] : h \in H2})
           /\ \A i \in DOMAIN ev.probes :
                 ev.probes[i][5] = (\E h \in H2 : \A k \in Rest : h[k] = ev.probes[i][1][k]))

TraceInit == l = 1 /\ G = {Id}
TraceNext == l <= Len(Rec) /\ Case /\ l' = l + 1 /\ UNCHANGED G
TraceSpec == TraceInit /\ [][TraceNext]_<<l, G>>
TraceAccepted ==
  LET d == TLCGet("stats").diameter IN
  IF d - 1 = Len(Rec) THEN TRUE
  ELSE Print(<<"TRACE-REJECTED at event", d, [deg |-> Rec[d].deg, gens |-> Rec[d].gens, more |-> Rec[d].more]>>, FALSE)
=============================================================================
