----------------------------- MODULE TraceGroup -----------------------------
(* Trace validation for the permutation-group structure on 5 and 6 points    *)
(* (too many generator sets for an exhaustive table): every recorded case of *)
(* harness/src/bin/gr_replay.rs  (random generators, then a second AddSet)   *)
(* is re-computed with Group.tla by brute-force closure.                     *)
EXTENDS Group, Json, IOUtils, SequencesExt

VARIABLE l
Rec == ndJsonDeserialize(IOEnv.VERIF_TRACE)
ev  == Rec[l]
SeqSet(s) == {s[i] : i \in DOMAIN s}

Case ==
  LET n  == ev.deg
      H1 == TLCEval(GeneratedN(n, SeqSet(ev.gens)))
      H2 == TLCEval(GeneratedN(n, SeqSet(ev.gens) \cup SeqSet(ev.more)))
  IN /\ ev.count1 = Cardinality(H1)
     /\ SeqSet(ev.all1) = H1 /\ Len(ev.all1) = Cardinality(H1)          \* no duplicates
     /\ \A i \in DOMAIN ev.probes : ev.probes[i][2] = (ev.probes[i][1] \in H1)
     /\ \A x \in 1..n : SeqSet(ev.orbits1[x]) = Orbit(H1, x)
     /\ ev.grew = (H2 # H1)
     /\ ev.count2 = Cardinality(H2)
     /\ SeqSet(ev.all2) = H2 /\ Len(ev.all2) = Cardinality(H2)
     /\ \A i \in DOMAIN ev.probes : ev.probes[i][3] = (ev.probes[i][1] \in H2)
     /\ (ev.viaegraph => /\ ev.eg_syms = Cardinality(H2)
                         /\ \A i \in DOMAIN ev.probes : ev.probes[i][4] = (ev.probes[i][1] \in H2))

TraceInit == l = 1 /\ G = {Id}
TraceNext == l <= Len(Rec) /\ Case /\ l' = l + 1 /\ UNCHANGED G
TraceSpec == TraceInit /\ [][TraceNext]_<<l, G>>
TraceAccepted ==
  LET d == TLCGet("stats").diameter IN
  IF d - 1 = Len(Rec) THEN TRUE
  ELSE Print(<<"TRACE-REJECTED at event", d, [deg |-> Rec[d].deg, gens |-> Rec[d].gens, more |-> Rec[d].more]>>, FALSE)
=============================================================================
