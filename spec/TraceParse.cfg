CONSTANTS
  Sig <- MCSig
  Payloads <- MCPayloads
SPECIFICATION TraceSpec
POSTCONDITION TraceAccepted
CHECK_DEADLOCK FALSE
