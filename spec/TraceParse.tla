----------------------------- MODULE TraceParse -----------------------------
(* Direction implementation -> specification for the parser: every recorded    *)
(* call  parse(text) -> Err | value  on mutated texts must agree with          *)
(* ParseChars of Parse.tla; a panic matches no behaviour of the specification. *)
EXTENDS Parse, Json, IOUtils
VARIABLE l
Rec == ndJsonDeserialize(IOEnv.VERIF_TRACE)
ev  == Rec[l]

Expected(e) == LET r == ParseChars(e.chars) IN
               IF e.kind = "term" /\ r.ok /\ ~IsTerm(r.ast) THEN Fail ELSE r

Agrees(e) == LET r == Expected(e) IN
             /\ ~e.panic
             /\ e.ok = r.ok
             /\ (r.ok => e.ast = r.ast /\ e.roundtrip)

TraceInit == l = 1
TraceNext == /\ l <= Len(Rec) /\ l' = l + 1
             /\ (IF Agrees(ev) THEN TRUE ELSE PrintT("PARSEBAD " \o ToJson([i |-> l, panic |-> ev.panic, impl_ok |-> ev.ok, spec_ok |-> Expected(ev).ok,
                                                               spec_ast |-> Expected(ev).ast])))
TraceSpec == TraceInit /\ [][TraceNext]_l
TraceAccepted == TLCGet("stats").diameter - 1 = Len(Rec)
=============================================================================
