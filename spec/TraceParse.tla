----------------------------- MODULE TraceParse -----------------------------
(* Direction implementation -> specification for the parser: every recorded    *)
(* call  parse(text) -> Err | value  on mutated texts must agree with          *)
(* ParseChars of Parse.tla; a panic matches no behaviour of the specification. *)
EXTENDS Parse, Json, IOUtils
VARIABLE l
Rec == ndJsonDeserialize(IOEnv.VERIF_TRACE)
ev  == Rec[l]

Expected(e) == LET r == ParseChars(e.chars) IN
               IF e.kind = "term" /\ r.ok /\ ~IsTerm(r.ast) THEN Fail ELSE r

(* a term of a language with NAMED payload operators, built through the API and printed by the implementation: its text *)
(* parses (as a term and as a pattern) and gives back the same value - the specification has no grammar for it, only    *)
(* the round-trip law                                                                                                  *)
PayloadAgrees(e) == ~e.panic /\ e.ok /\ e.roundtrip

Agrees(e) == IF e.kind = "payload-term" THEN PayloadAgrees(e) ELSE
             LET r == Expected(e) IN
             /\ ~e.panic
             /\ e.ok = r.ok
             /\ (r.ok => e.ast = r.ast /\ e.roundtrip)

TraceInit == l = 1
TraceNext == /\ l <= Len(Rec) /\ l' = l + 1
             /\ (IF Agrees(ev) THEN TRUE ELSE PrintT("PARSEBAD " \o ToJson([i |-> l, panic |-> ev.panic, impl_ok |-> ev.ok,
                                                               spec_ok |-> IF ev.kind = "payload-term" THEN TRUE ELSE Expected(ev).ok,
                                                               spec_ast |-> IF ev.kind = "payload-term" THEN NoAst ELSE Expected(ev).ast])))
TraceSpec == TraceInit /\ [][TraceNext]_l
TraceAccepted == TLCGet("stats").diameter - 1 = Len(Rec)
=============================================================================
