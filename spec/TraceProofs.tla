----------------------------- MODULE TraceProofs -----------------------------
(* Every explanation recorded from the real library (explanations build) is    *)
(* re-checked node by node by Proofs.tla.  A panic inside the explanation call *)
(* matches no behaviour.                                                       *)
EXTENDS Proofs, Json, IOUtils, SequencesExt
VARIABLE l
Rec == ndJsonDeserialize(IOEnv.VERIF_TRACE)
ev  == Rec[l]

BadNodes(e) == {i \in DOMAIN e.dag : ~(e.dag[i].id = i /\ StepOK(e.dag[i], e.dag, e.asserted))}
Verdict(e) ==
  IF e.panic THEN "panic"
  ELSE IF BadNodes(e) # {} THEN "step"
  ELSE IF ~MatchEqInj(e.dag[e.root].l, e.dag[e.root].r, e.query.l, e.query.r) THEN "conclusion"
  ELSE "ok"

TraceInit == l = 1
TraceNext == /\ l <= Len(Rec) /\ l' = l + 1
             /\ LET v == Verdict(ev) IN
                IF v = "ok" THEN TRUE
                ELSE PrintT("PROOFBAD " \o ToJson([i |-> l, verdict |-> v,
                        nodes |-> IF ev.panic THEN << >> ELSE SetToSeq(BadNodes(ev))]))
TraceSpec == TraceInit /\ [][TraceNext]_l
TraceAccepted == TLCGet("stats").diameter - 1 = Len(Rec)
=============================================================================
