----------------------------- MODULE TraceProofs -----------------------------
(* Every explanation recorded from the real library (explanations build) is    *)
(* re-checked node by node by Proofs.tla.  A panic inside the explanation call *)
(* matches no behaviour.                                                       *)
EXTENDS Proofs, Json, IOUtils, SequencesExt
VARIABLE l
Rec == ndJsonDeserialize(IOEnv.VERIF_TRACE)
ev  == Rec[l]

BadNodes(e) == {i \in DOMAIN e.dag : ~(e.dag[i].id = i /\ StepOK(e.dag[i], e.dag, e.asserted))}
Verdict(e) ==
  IF e.ev = "flat" THEN "ok"                  \* flat events carry no DAG (FlatVerdict judges them)
  ELSE IF e.panic THEN "panic"
  ELSE IF BadNodes(e) # {} THEN "step"
  ELSE IF ~MatchEqInj(e.dag[e.root].l, e.dag[e.root].r, e.query.l, e.query.r) THEN "conclusion"
  ELSE "ok"

(* the flat rendering of the same proof (judged only when the DAG was obtained) *)
FlatVerdict(e) ==
  IF e.flat_status = "none" THEN "ok"
  ELSE IF e.flat_status # "ok" THEN e.flat_status              \* "panic", "unreadable", "hang"
  ELSE IF FlatBadSteps(e.flat, e.asserted) # {} THEN "step"
  ELSE IF ~FlatConcludes(e.flat, e.query.l, e.query.r) THEN "conclusion"
  ELSE "ok"

TraceInit == l = 1
TraceNext == /\ l <= Len(Rec) /\ l' = l + 1
             /\ LET v == Verdict(ev) IN
                IF v = "ok" THEN TRUE
                ELSE PrintT("PROOFBAD " \o ToJson([i |-> l, verdict |-> v,
                        nodes |-> IF ev.panic THEN << >> ELSE SetToSeq(BadNodes(ev))]))
             /\ LET fv == FlatVerdict(ev) IN
                IF fv = "ok" THEN TRUE
                ELSE PrintT("FLATBAD " \o ToJson([i |-> l, verdict |-> fv,
                        steps |-> IF ev.flat_status = "ok" THEN SetToSeq(FlatBadSteps(ev.flat, ev.asserted)) ELSE << >>]))
TraceSpec == TraceInit /\ [][TraceNext]_l
TraceAccepted == TLCGet("stats").diameter - 1 = Len(Rec)
=============================================================================
