CONSTANTS
  P <- TraceP
  NumTable <- TraceNumTable
SPECIFICATION TraceSpec
POSTCONDITION TraceAccepted
CHECK_DEADLOCK FALSE
