---------------------------- MODULE TraceRewrite ----------------------------
(***************************************************************************)
(* Trace validation of recorded rewriting runs of the real library          *)
(* (harness/src/bin/rw_record.rs, language A) against                       *)
(*   Model.tla    C03: every member of every class denotes the same function*)
(*                of the class's slots (all environments over GF(P)),       *)
(*                independent of every other slot; the start term's class   *)
(*                denotes the start term                                    *)
(*   Datum (here) C14: constant-folding datum = least fixpoint of make over *)
(*                the e-nodes, a class with a value contains the literal    *)
(*                and every member has that value in the model              *)
(*   RunnerOps    C15: the stop decision of every iteration, the report,    *)
(*                and apply_rewrites returning false only if nothing changed*)
(* Every event is consumed; failing obligations are printed as RWBAD lines  *)
(* tagged with the property they belong to.                                 *)
(***************************************************************************)
EXTENDS Model, RunnerOps, Json, IOUtils, SequencesExt

VARIABLES l,        \* position in the trace
          iter, stop, \* Runner.tla state of the current run
          cfgv      \* the current run's configuration (reset event)

Rec == ndJsonDeserialize(IOEnv.VERIF_TRACE)
ev  == Rec[l]

Bad(prop, what) == PrintT("RWBAD " \o ToJson([i |-> l, prop |-> prop, what |-> what]))
Check(cond, prop, what) == IF cond THEN TRUE ELSE Bad(prop, what)

(* ---- C03 ------------------------------------------------------------------ *)
SlotSet(e) == Range(e.slots)
(* value of member m under every assignment `a` of the class slots, over all   *)
(* extensions to m's other free slots                                           *)
ValuesOf(m, slots, a) ==
  LET other == FV(m) \ slots IN
  {Eval(m, [x \in FV(m) \cup slots |-> IF x \in slots THEN a[x] ELSE b[x]]) : b \in Envs(other)}

ClassMeaningOK(e) ==
  \A a \in Envs(SlotSet(e)) :
     Cardinality(UNION {ValuesOf(e.members[i], SlotSet(e), a) : i \in DOMAIN e.members}) <= 1

MembersUseSlots(e) == \A i \in DOMAIN e.members : SlotSet(e) \subseteq FV(e.members[i]) \cup SlotSet(e)

(* ---- C14: constant folding ----------------------------------------------------*)
(* nodes of the dump: [cls, op, ch (class numbers)]; datum[k] = <<v>> or << >>     *)
IsNum(op) == op \notin {"var", "add", "mul", "sum", "let"}
MakeNode(nd, d) ==
  IF IsNum(nd.op) THEN <<NumVal(nd.op)>>
  ELSE IF nd.op \in {"add", "mul"} /\ d[nd.ch[1]] # << >> /\ d[nd.ch[2]] # << >>
       THEN <<IF nd.op = "add" THEN d[nd.ch[1]][1] + d[nd.ch[2]][1] ELSE d[nd.ch[1]][1] * d[nd.ch[2]][1]>>
  ELSE IF nd.op = "mul" /\ (d[nd.ch[1]] = <<0>> \/ d[nd.ch[2]] = <<0>>) THEN <<0>>     \* zero is absorbing
  ELSE << >>
RECURSIVE DatumFix(_, _, _)
DatumFix(nodes, K, d) ==
  LET d2 == [k \in K |->
               LET vs == {MakeNode(nodes[j], d) : j \in {j \in DOMAIN nodes : nodes[j].cls = k}} \ {<< >>}
               IN IF vs = {} THEN << >> ELSE CHOOSE v \in vs : \A w \in vs : v[1] <= w[1]]
  IN IF d2 = d THEN d ELSE DatumFix(nodes, K, d2)

DumpOK(e) ==
  LET K == 1..e.nclasses
      d == DatumFix(e.nodes, K, [k \in K |-> << >>])
  IN /\ Check(\A k \in K : e.datum[k] = d[k], "C14", "datum is not the least fixpoint of make/merge over the class's e-nodes")
     /\ Check(\A k \in K : e.datum[k] # << >> =>
                 \E j \in DOMAIN e.nodes : e.nodes[j].cls = k /\ IsNum(e.nodes[j].op) /\ NumVal(e.nodes[j].op) = e.datum[k][1],
              "C14", "class with a constant value does not contain the literal (modify hook)")

(* ---- events ---------------------------------------------------------------------*)
IsEvent(name) == l <= Len(Rec) /\ ev.ev = name /\ l' = l + 1

TrReset == /\ IsEvent("reset") /\ cfgv' = ev /\ iter' = 0 /\ stop' = "none"

TrClass ==
  /\ IsEvent("class") /\ UNCHANGED <<iter, stop, cfgv>>
  /\ Check(ClassMeaningOK(ev), "C03", "members of one class denote different functions of the class slots (or depend on other slots)")
  /\ Check(ev.datum = << >> \/ \A i \in DOMAIN ev.members : \A env \in Envs(FV(ev.members[i])) :
              Eval(ev.members[i], env) = ev.datum[1] % P,
           "C14", "constant datum differs from the model value of a member")

TrStart ==
  /\ IsEvent("start") /\ UNCHANGED <<iter, stop, cfgv>>
  /\ Check(SameMeaning(ev.term, ev.rep), "C03", "the start term's class no longer denotes the start term")

TrDump == IsEvent("dump") /\ UNCHANGED <<iter, stop, cfgv>> /\ DumpOK(ev)

(* a direct apply_rewrites call: false only if nothing observable changed *)
TrRewrite ==
  /\ IsEvent("rewrite") /\ UNCHANGED <<iter, stop, cfgv>>
  /\ Check(ev.ret \/ ~ev.fp_changed, "C15", "apply_rewrites returned false although the observable fingerprint changed")
  \* C04 (Runner.tla: Apply asserts l.sigma = r.sigma for EVERY match sigma of EVERY rule in the state before the call):
  \* the recorder matched all rules in the pre-state; afterwards every right side is represented and equal
  /\ Check(~ev.in_scope \/ ev.unfired = 0, "C04", "an instance of a rule's left side that was matched before apply_rewrites is not rewritten by the call")

(* one iteration of Runner::run / run_eqsat.  ret (what apply_rewrites returned) is not
   logged: the specification may choose it, but fp_changed => ret *)
(* The loop's own clock is not observable.  The recorder brackets it: lo_ms <= elapsed <= hi_ms
   (lo: end of this iteration's hook minus start of the first hook, which is after the loop
   started its clock; hi: the next thing the recorder sees - the next hook or the return of
   the call - minus the time just before the call).  The decision is monotone in the elapsed
   time, so the two end points give all possible outcomes.                                   *)
StopOf(ret, e) == IF cfgv.kind = "runner"
               THEN RunnerStopL(cfgv.iter_limit, cfgv.node_limit, cfgv.time_limit_ms, iter, ret, ev.hook_ok, ev.nodes, e)
               ELSE EqsatStopL(cfgv.iter_limit, cfgv.time_limit_ms, iter, ret, ev.hook_ok, e)
TrIter ==
  /\ IsEvent("iter") /\ UNCHANGED cfgv
  /\ LET possible == {StopOf(ret, e) : ret \in {r \in BOOLEAN : ev.fp_changed => r}, e \in {ev.lo_ms, ev.hi_ms}} IN
     /\ Check(stop = "none", "C15", "an iteration ran after the runner had stopped")
     /\ Check(ev.lo_ms <= ev.hi_ms, "C15", "recorder clock bracket is empty")
     /\ Check(ev.stop \in possible, "C15", "stop decision of this iteration is not the one the control loop specifies")
     /\ stop' = ev.stop
     /\ iter' = IF cfgv.kind = "runner" \/ ev.stop = "none" THEN iter + 1 ELSE iter

TrStop ==
  /\ IsEvent("stop") /\ UNCHANGED <<iter, stop, cfgv>>
  /\ Check(ev.reason = stop /\ stop # "none", "C15", "reported stop reason differs from the loop's")
  /\ Check(ev.iterations = iter, "C15", "reported number of iterations is wrong")
  /\ Check(ev.report_nodes = ev.actual_nodes, "C15", "node count in the report differs from the e-graph's")
  /\ Check(iter <= cfgv.iter_limit + 2, "C15", "loop ran beyond the iteration bound plus two")
  /\ Check(stop = "saturated" => ~ev.again_fp_changed /\ ev.matches_equal, "C15", "stopped as saturated but applying the rules again changes something / a match has unequal sides")
  /\ Check(stop = "node" => ev.actual_nodes > cfgv.node_limit, "C15", "NodeLimit reported but the limit is not exceeded")
  /\ Check(stop = "iter" => (IF cfgv.kind = "runner" THEN iter - 1 > cfgv.iter_limit ELSE iter >= cfgv.iter_limit), "C15", "IterationLimit reported but the limit is not reached")
  /\ Check(stop = "time" => (IF cfgv.kind = "runner" THEN ev.total_hi_ms > cfgv.time_limit_ms ELSE ev.total_hi_ms >= cfgv.time_limit_ms), "C15", "TimeLimit reported but the time limit had not passed when the call returned")
  /\ Check(stop = "other" => ev.hook_failed, "C15", "Other reported but no hook failed")

TraceInit == l = 1 /\ iter = 0 /\ stop = "none" /\ cfgv = [kind |-> "none"]
TraceNext == TrReset \/ TrClass \/ TrStart \/ TrDump \/ TrRewrite \/ TrIter \/ TrStop
TraceSpec == TraceInit /\ [][TraceNext]_<<l, iter, stop, cfgv>>
TraceAccepted ==
  LET d == TLCGet("stats").diameter IN
  IF d - 1 = Len(Rec) THEN TRUE ELSE Print(<<"TRACE-REJECTED at event", d, Rec[d].ev>>, FALSE)
=============================================================================
