----------------------------- MODULE TraceShape -----------------------------
(* Judges the records of harness/src/bin/sh_record.rs (what the derived       *)
(* Language impl says about every enumerated e-node) with the operators of    *)
(* Shape.tla.  Every record is consumed; the laws that fail are accumulated   *)
(* in `bad` (so one failure does not hide the rest) and reported by the       *)
(* postcondition, which also checks the global law                            *)
(*    equal implementation shapes  <=>  equal reference shapes.               *)
EXTENDS Shape, Json, IOUtils, SequencesExt

VARIABLES l
Rec == ndJsonDeserialize(IOEnv.VERIF_TRACE)
ev  == Rec[l]
PairsToMap(ps) == [k \in {ps[i][1] : i \in DOMAIN ps} |-> ps[CHOOSE i \in DOMAIN ps : ps[i][1] = k][2]]
Bag(s) == [x \in Range(s) |-> Cardinality({i \in DOMAIN s : s[i] = x})]

IsPayload(e) == "payload" \in DOMAIN e        \* a payload value (language S1): only the syntax round trip is stated
Laws(e) ==
  LET n == e.node IN
  IF e.panic THEN {"panic"}
  ELSE IF IsPayload(e) THEN (IF e.syntax_ok THEN {} ELSE {"to_syntax/from_syntax of a payload value"})
  ELSE
   (IF e.all = AllOcc(n) /\ e.mut_same THEN {} ELSE {"all_slot_occurrences"})
   \cup (IF e.pub = PubOcc(n) THEN {} ELSE {"public_slot_occurrences"})
   \cup (IF Bag(e.priv) = Bag(PrivOcc(n)) THEN {} ELSE {"private_slot_occurrences"})
   \cup (IF Bag(e.priv_mut) = Bag(PrivOcc(n)) THEN {} ELSE {"private_slot_occurrences_mut"})
   \cup (IF AlphaEqNode(e.refreshed, n) /\ PubOcc(e.refreshed) = PubOcc(n) /\ e.refreshed_slots_same THEN {}
         ELSE {"refresh_private is an alpha-renaming that leaves the public slots alone"})
   \cup (IF Bag(e.pub \o e.priv) = Bag(e.all) THEN {} ELSE {"public+private=all"})
   \cup (IF Range(e.slots) = Slots(n) /\ Range(e.slots) = Range(e.pub) THEN {} ELSE {"slots"})
   \cup (IF AlphaEqNode(e.back, n) THEN {} ELSE {"shape.apply(bij) = node"})
   \cup (IF Range(PairsToMap(e.bij)) = Slots(n) THEN {} ELSE {"bij covers the free slots"})
   \cup (IF Equiv(e.shape, n) THEN {} ELSE {"shape is a renaming of the node"})
   \cup (IF e.shape_idem THEN {} ELSE {"shape(shape) = shape"})
   \cup (IF e.rot_same THEN {} ELSE {"shape invariant under renaming"})
   \cup (IF e.syntax_ok /\ e.nchildren_ok THEN {} ELSE {"to_syntax/from_syntax"})

TraceInit == l = 1
TraceNext == /\ l <= Len(Rec) /\ l' = l + 1
             /\ LET f == Laws(ev) IN
                IF f = {} THEN TRUE
                ELSE PrintT("SHAPEBAD " \o ToJson([i |-> ev.i, laws |-> SetToSeq(f), collides |-> IF IsPayload(ev) THEN FALSE ELSE Collides(ev.node)]))
TraceSpec == TraceInit /\ [][TraceNext]_<<l>>

(* shapes are canonical: equal impl shapes exactly for renaming-equivalent nodes *)
Good == {i \in 1..Len(Rec) : ~Rec[i].panic /\ ~IsPayload(Rec[i])}
Pairs == {<<Rec[i].shape_key, RefShape(Rec[i].node)>> : i \in Good}
ImplKeys == {p[1] : p \in Pairs}
RefKeys  == {p[2] : p \in Pairs}
Witness ==
  IF Cardinality(Pairs) = Cardinality(ImplKeys) /\ Cardinality(Pairs) = Cardinality(RefKeys) THEN << >>
  ELSE LET i == CHOOSE i \in Good : \E j \in Good :
                   (Rec[i].shape_key = Rec[j].shape_key) # (RefShape(Rec[i].node) = RefShape(Rec[j].node))
           j == CHOOSE j \in Good :
                   (Rec[i].shape_key = Rec[j].shape_key) # (RefShape(Rec[i].node) = RefShape(Rec[j].node))
       IN <<[a |-> Rec[i].node, b |-> Rec[j].node, same_impl_shape |-> Rec[i].shape_key = Rec[j].shape_key,
             collides |-> Collides(Rec[i].node) \/ Collides(Rec[j].node)]>>

TraceAccepted ==
  /\ TLCGet("stats").diameter - 1 = Len(Rec)
  /\ PrintT("SHAPERESULT " \o ToJson([canon |-> Witness,
                                      classes |-> Cardinality(RefKeys), impl_classes |-> Cardinality(ImplKeys)]))
=============================================================================
