CONSTANTS
  S <- TraceS
SPECIFICATION TraceSpec
POSTCONDITION TraceAccepted
CHECK_DEADLOCK FALSE
