---------------------------- MODULE TraceSlotMap ----------------------------
(* Trace validation for SlotMap (direction implementation -> specification): *)
(* every recorded public call of the real SlotMap must be a step of          *)
(* SlotMap.tla and every logged result must equal the reference result.      *)
(* Recorded by harness/src/bin/sm_record.rs (random long operation sequences *)
(* over alphabets larger than the inline capacity of ten).                   *)
EXTENDS SlotMap, Json, IOUtils, SequencesExt

VARIABLE l

Rec == ndJsonDeserialize(IOEnv.VERIF_TRACE)

PairSeq(a) == SetToSortSeq(AsPairs(a), LAMBDA p, q : p[1] < q[1])
SetSeq(X)  == SetToSortSeq(X, <)
FromPairs(ps) == [k \in {ps[i][1] : i \in DOMAIN ps} |-> (CHOOSE i \in DOMAIN ps : ps[i][1] = k) \* unique keys
                   ]
MapOf(ps) == [k \in {ps[i][1] : i \in DOMAIN ps} |-> ps[CHOOSE i \in DOMAIN ps : ps[i][1] = k][2]]

IsEvent(e) == l <= Len(Rec) /\ Rec[l].op = e /\ l' = l + 1
ev == Rec[l]

TrReset  == IsEvent("reset") /\ m' = Empty
TrInsert == IsEvent("insert") /\ SmInsert(ev.k, ev.v) /\ PairSeq(m') = ev.pairs
TrRemove == IsEvent("remove") /\ SmRemove(ev.k) /\ PairSeq(m') = ev.pairs
TrRead   == /\ IsEvent("read") /\ UNCHANGED m
            /\ ev.len = Len_(m) /\ ev.keys = SetSeq(Keys(m)) /\ ev.values = SetSeq(Values(m))
            /\ ev.bij = IsBij(m) /\ ev.perm = IsPerm(m)
            /\ (IsBij(m) => ev.inv = PairSeq(SmInverse(m)))
            /\ ((~IsBij(m) /\ ev.inv_taken) => IsSection(m, ev.inv) /\ ev.inv_wf)
            /\ ev.eq_canon /\ ev.hash_canon /\ ev.cmp_canon_equal
            /\ \A i \in DOMAIN ev.gets : ev.gets[i][2] = Get(m, ev.gets[i][1])
TrBin    == /\ IsEvent("bin") /\ UNCHANGED m
            /\ LET b == MapOf(ev.b) IN
               /\ ev.cp = PairSeq(ComposePartial(m, b))
               /\ ev.cp_rev = PairSeq(ComposePartial(b, m))
               /\ ev.fresh_keys = SetSeq(FreshKeys(m, b)) /\ ev.fresh_new
               /\ ev.compat = Compatible(m, b)
               /\ (Compatible(m, b) => ev.un = PairSeq(Union_(m, b)))

(* construction of the current pair set from a shuffled listing: the result is the same map  *)
TrBuild  == /\ IsEvent("build") /\ UNCHANGED m
            /\ FromSeq(ev.order) = m
            /\ ev.pairs = PairSeq(m) /\ ev.len = Len_(m)
            /\ ev.eq /\ ev.hash /\ ev.cmp_equal /\ ev.inv_inv
            /\ \A i \in DOMAIN ev.gets : ev.gets[i][2] = Get(m, ev.gets[i][1])

TraceInit == m = Empty /\ l = 1
TraceNext == TrReset \/ TrInsert \/ TrRemove \/ TrRead \/ TrBin \/ TrBuild
TraceSpec == TraceInit /\ [][TraceNext]_<<m, l>>

TraceAccepted ==
  LET d == TLCGet("stats").diameter IN
  IF d - 1 = Len(Rec) THEN TRUE
  ELSE Print(<<"TRACE-REJECTED at event", d, Rec[d]>>, FALSE)
=============================================================================
