----------------------------- MODULE RunnerInd -----------------------------
(***************************************************************************)
(* The control loops of Runner.tla (Runner::run and run_eqsat) with the      *)
(* limits as unconstrained parameters, for an UNBOUNDED argument with        *)
(* Apalache: IndRunner / IndEqsat are inductive for ALL iteration, node and  *)
(* time limits (TLC checks Runner.tla for the limits 3 / 2 / 2 only), and    *)
(* they contain the claims of C15 about the loop: it ends within the         *)
(* iteration bound plus two, and a limit is reported only when it is really  *)
(* exceeded.  The stop decisions are the operators of RunnerOps.tla, copied  *)
(* verbatim (Apalache needs the type annotations).                           *)
(***************************************************************************)
EXTENDS Integers, Apalache

VARIABLES
    \* @type: Int;
    iterLimit,
    \* @type: Int;
    nodeLimit,
    \* @type: Int;
    timeLimit,
    \* @type: Int;
    iter,
    \* @type: Str;
    stop,
    \* @type: Int;
    nodes,
    \* @type: Int;
    clock

\* @type: (Int, Int, Int, Int, Bool, Bool, Int, Int) => Str;
RunnerStopL(il, nl, tl, it, ret, hookOk, n, e) ==
  IF ~hookOk THEN "other"
  ELSE IF it > il THEN "iter"
  ELSE IF n > nl THEN "node"
  ELSE IF e > tl THEN "time"
  ELSE IF ~ret THEN "saturated"
  ELSE "none"

\* @type: (Int, Int, Int, Bool, Bool, Int) => Str;
EqsatStopL(il, tl, it, ret, hookOk, e) ==
  IF ~hookOk THEN "other"
  ELSE IF ~ret THEN "saturated"
  ELSE IF it >= il THEN "iter"
  ELSE IF e >= tl THEN "time"
  ELSE "none"

Limits == iterLimit >= 0 /\ nodeLimit >= 0 /\ timeLimit >= 0
Init == iterLimit = Gen(1) /\ nodeLimit = Gen(1) /\ timeLimit = Gen(1) /\ nodes = Gen(1)
        /\ Limits /\ iter = 0 /\ stop = "none" /\ nodes >= 0 /\ clock = 0

RunOne(ret, hookOk, n, e) ==
  /\ stop = "none" /\ n >= 0
  /\ e >= clock /\ clock' = e
  /\ stop' = RunnerStopL(iterLimit, nodeLimit, timeLimit, iter, ret, hookOk, n, e)
  /\ iter' = iter + 1
  /\ nodes' = n
  /\ UNCHANGED <<iterLimit, nodeLimit, timeLimit>>

EqsatStep(ret, hookOk, n, e) ==
  /\ stop = "none" /\ n >= 0
  /\ e >= clock /\ clock' = e
  /\ stop' = EqsatStopL(iterLimit, timeLimit, iter, ret, hookOk, e)
  /\ iter' = IF stop' = "none" THEN iter + 1 ELSE iter
  /\ nodes' = n
  /\ UNCHANGED <<iterLimit, nodeLimit, timeLimit>>

Stutter == UNCHANGED <<iterLimit, nodeLimit, timeLimit, iter, stop, nodes, clock>>
NextRunner == (\E ret, hookOk \in BOOLEAN : \E n, e \in Int : RunOne(ret, hookOk, n, e)) \/ Stutter
NextEqsat  == (\E ret, hookOk \in BOOLEAN : \E n, e \in Int : EqsatStep(ret, hookOk, n, e)) \/ Stutter

Reasons == {"none", "saturated", "iter", "node", "time", "other"}
IndRunner ==
  /\ Limits /\ iter >= 0 /\ clock >= 0 /\ nodes >= 0 /\ stop \in Reasons
  /\ iter <= iterLimit + 2                              \* the loop ends within the bound plus two
  /\ (stop = "none" => iter <= iterLimit + 1)
  /\ (stop = "iter" => iter - 1 > iterLimit)            \* limits are reported truthfully
  /\ (stop = "node" => nodes > nodeLimit)
  /\ (stop = "time" => clock > timeLimit)
IndEqsat ==
  /\ Limits /\ iter >= 0 /\ clock >= 0 /\ nodes >= 0 /\ stop \in Reasons
  /\ iter <= iterLimit
  /\ (stop = "iter" => iter >= iterLimit)
  /\ (stop = "time" => clock >= timeLimit)
  /\ stop # "node"

\* arbitrary states satisfying the invariants
AnyState == iterLimit = Gen(1) /\ nodeLimit = Gen(1) /\ timeLimit = Gen(1) /\ iter = Gen(1) /\ stop \in Reasons
            /\ nodes = Gen(1) /\ clock = Gen(1)
IndInitRunner == AnyState /\ IndRunner
IndInitEqsat  == AnyState /\ IndEqsat
=============================================================================
