---------------------------- MODULE SlotCounter ----------------------------
(***************************************************************************)
(* The integer core of SlotTable.tla (projection: only fresh-style slots,   *)
(* identified by their index) for an UNBOUNDED argument with Apalache:      *)
(* IndInv is inductive, and it implies that Slot::fresh never returns an    *)
(* index that was obtained before - for all naturals, not only the bounded  *)
(* alphabet TLC explores.  (Below 2^30 in the implementation: u32.)         *)
(***************************************************************************)
EXTENDS Integers, Apalache

VARIABLES
    \* @type: Int;
    ctr,
    \* @type: Set(Int);
    issued

Init == ctr = 0 /\ issued = {}

\* Slot::fresh()
Fresh == issued' = issued \union {ctr} /\ ctr' = ctr + 1

\* Slot::named("f<n>") for a canonical decimal n
NamedF(n) == /\ n >= 0
             /\ issued' = issued \union {n}
             /\ ctr' = IF ctr <= n THEN n + 1 ELSE ctr

\* numeric / textual names do not touch the fresh counter
Other == UNCHANGED <<ctr, issued>>

Next == Fresh \/ (\E n \in Nat : NamedF(n)) \/ Other

\* the inductive invariant: every fresh-style index ever obtained lies below the counter
IndInv == ctr >= 0 /\ \A i \in issued : i >= 0 /\ i < ctr

\* an arbitrary state satisfying IndInv (Apalache value generators: any integer, any set of up to 6 integers)
IndInit == ctr = Gen(1) /\ issued = Gen(6) /\ IndInv

\* consequence checked as an action invariant: a fresh slot is new
FreshIsNew == ctr \notin issued
=============================================================================
