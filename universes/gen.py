#!/usr/bin/env python3
"""Generator of the bounded universes shared by the TLA+ models and the Rust harness.

Only *inputs* are produced here (term pools, equation pools, constants); nothing in this file
is an oracle.  Terms are written as s-expressions over the harness language T, names are small
integers:  (f 1 2)   (g (f 1 2))   (lam 1 (f 1 2))   (sum (v 1) 2 3 (f 2 3))   c
The JSON term encoding is {"op":..,"sl":[names],"ch":[{"bd":[names],"t":TERM}]}.
"""
import json, os, sys

# operator -> (number of direct slots, binders per child)
SIG_T = {
    "f": (2, []), "p": (2, []), "f3": (3, []), "p3": (3, []), "f4": (4, []), "v": (1, []), "c": (0, []), "d": (0, []),
    "g": (0, [0]), "h": (0, [0, 0]), "lam": (0, [1]), "let": (0, [1, 0]),
    "k": (0, [0, 1]), "sum": (0, [0, 2]),
    # a direct slot AFTER the child in the library's syntax, W(AppliedId, Slot) / Wb(Bind<AppliedId>, Slot); in this DSL the
    # slot is written first like every direct slot: (w 1 (f 1 2)) is the library's (w (f $1 $2) $1)
    "w": (1, [0]), "wb": (1, [1]),
    "ite": (0, [0, 0, 0]),
}

def tokenize(s):
    return s.replace("(", " ( ").replace(")", " ) ").split()

def parse(s, sig=SIG_T):
    toks = tokenize(s)
    t, rest = _parse(toks, sig)
    assert not rest, (s, rest)
    return t

def _parse(toks, sig):
    if toks[0] != "(":
        op = toks[0]
        assert sig[op] == (0, []), op
        return {"op": op, "sl": [], "ch": []}, toks[1:]
    op = toks[1]
    nsl, binders = sig[op]
    toks = toks[2:]
    sl = [int(x) for x in toks[:nsl]]
    toks = toks[nsl:]
    ch = []
    for nb in binders:
        bd = [int(x) for x in toks[:nb]]
        toks = toks[nb:]
        t, toks = _parse(toks, sig)
        ch.append({"bd": bd, "t": t})
    assert toks[0] == ")", toks
    return {"op": op, "sl": sl, "ch": ch}, toks[1:]

def universe(name, N, eqs, extra_terms=(), base=(), note=""):
    terms, index = [], {}
    def ti(s):
        if s not in index:
            terms.append(parse(s))
            index[s] = len(terms)      # 1-based (TLA+ sequences)
        return index[s]
    pairs = [[ti(a), ti(b)] for a, b in eqs]
    for s in extra_terms:
        ti(s)
    return {"name": name, "N": N, "terms": terms, "texts": list(index.keys()),
            "eqs": pairs, "base": [ti(s) for s in base], "note": note}

F12, F21, F13, F23, F11 = "(f 1 2)", "(f 2 1)", "(f 1 3)", "(f 2 3)", "(f 1 1)"
V1, V2, C, D = "(v 1)", "(v 2)", "c", "d"
GF12, GF21, GV1 = "(g (f 1 2))", "(g (f 2 1))", "(g (v 1))"
HFF, HFV = "(h (f 1 2) (f 2 3))", "(h (f 1 2) (v 1))"
L1F, L2F, L1V = "(lam 1 (f 1 2))", "(lam 2 (f 1 2))", "(lam 1 (v 1))"

U1 = universe("U1", 4, [
    (F12, F21),            # swap symmetry
    (F12, F13),            # second slot redundant
    (F12, C),              # everything redundant through a constant
    (F12, V1), (F12, V2),  # one-sided redundancy
    (F12, F23),            # f(x,y)=f(y,z): needs a spare name to close
    (F12, F11),            # repeated slot on one side
    (V1, C), (V1, V2), (V1, GV1),            # self reference v(x)=g(v(x))
    (GF12, GF21),          # symmetry above the leaf only
    (GF12, F12), (GF12, F21), (GF12, C), (GF12, V1),
    (HFF, F13), (HFF, F12), (HFF, C),
    (HFV, F12), (HFV, F21), (HFV, V2), (HFV, V1),
    (L1F, V2), (L1F, C), (L2F, V1), (L1F, L2F),
    (L1V, C), (L1V, D), (L1V, GV1),
    (C, D),
    (F12, "(h (f 2 1) (f 1 3))"),            # right side mentions the left side
    (F11, C), (F11, V1),
], note="<=3 names per equation, pool 4")

F3 = lambda a, b, c: "(f3 %d %d %d)" % (a, b, c)
U2 = universe("U2", 5, [
    (F3(1, 2, 3), F3(2, 3, 1)),            # 3-cycle
    (F3(1, 2, 3), F3(2, 1, 3)),            # transposition
    (F3(1, 2, 3), F3(1, 3, 2)),
    (F3(1, 2, 3), F3(4, 2, 3)),            # first slot redundant
    (F3(1, 2, 3), F3(1, 2, 4)),
    (F3(1, 2, 3), "(g (f3 2 4 1))"),        # rhs mentions lhs, 4 names
    (F3(1, 2, 3), "(g (f3 1 2 3))"),
    ("(g (f3 1 2 3))", "(g (f3 2 3 1))"),
    ("(g (f3 1 2 3))", "(g (f3 2 1 3))"),
    (F3(1, 2, 3), "(f 1 2)"),
    (F3(1, 2, 3), "(f 2 1)"),
    ("(f 1 2)", "(f 2 1)"),
    (F3(1, 2, 3), "(v 3)"),
    (F3(1, 2, 3), "c"),
    ("(lam 1 (f3 1 2 3))", "(f 2 3)"),
    ("(lam 1 (f3 1 2 3))", "(f 3 2)"),
    ("(lam 1 (f3 1 2 3))", "(lam 1 (f3 1 3 2))"),
    ("(g (f3 1 2 3))", "(f 1 2)"),
], note="<=4 names per equation, pool 5")

U3 = universe("U3", 4, [
    ("(let 1 (v 1) (v 2))", "(v 2)"),                 # let x = v(y) in x  ->  v(y)
    ("(let 1 (f 1 2) (v 2))", "(f 2 2)"),
    ("(let 1 (f 1 2) (v 3))", "(f 3 2)"),
    ("(let 1 (v 2) (v 3))", "(v 2)"),                 # unused binder: value redundant
    ("(let 1 (v 2) (v 1))", "(v 2)"),                 # free occurrence of the binder's name in the value
    ("(lam 1 (lam 1 (v 1)))", "(lam 1 (lam 2 (v 2)))"),  # shadowing: alpha-equal, a no-op union
    ("(lam 1 (lam 2 (v 1)))", "(lam 1 (lam 1 (v 1)))"),  # NOT alpha-equal
    ("(lam 1 (lam 2 (f 1 2)))", "(lam 1 (lam 2 (f 2 1)))"),
    ("(lam 1 (f 1 2))", "(v 2)"),
    ("(lam 1 (f 1 2))", "(lam 1 (f 2 1))"),
    ("(f 1 2)", "(f 2 1)"),
    ("(sum (v 1) 2 3 (f 2 3))", "(v 1)"),
    ("(sum (v 1) 2 3 (f 2 3))", "(sum (v 1) 2 3 (f 3 2))"),
    ("(sum (v 1) 2 2 (v 2))", "c"),                   # nested binder shadowing itself
    ("(sum (v 1) 2 3 (f 2 3))", "(sum (v 1) 3 2 (f 3 2))"),  # alpha-equal
    ("(k (v 1) 2 (f 2 1))", "(v 1)"),
    ("(k (v 1) 2 (f 2 1))", "(k (v 1) 2 (f 1 2))"),
    ("(k (v 1) 2 (v 2))", "(k c 2 (v 2))"),
    ("(v 1)", "c"),
    # a free child BEFORE a binder of the same name (layout of Sdql::Sum), and after it
    ("(k (v 1) 1 (f 1 2))", "(v 2)"),
    ("(k (v 1) 1 (v 1))", "(v 1)"),
    ("(sum (v 1) 1 2 (f 1 2))", "(v 1)"),
    ("(let 1 (v 1) (v 1))", "(v 1)"),
    ("(k (v 1) 1 (f 1 2))", "(k (v 1) 3 (f 3 2))"),   # alpha-equal
], base=["(sum c 2 3 (f 2 3))", "(sum c 2 3 (f 3 2))", "(g (sum c 2 3 (f 2 3)))", "(sum c 2 3 (f 3 3))"],
   note="binder heavy: let, nested lam, sum (Bind Bind), k (child before binder); CLOSED nodes that bind two slots of one symmetric child")

# U4 "parents": classes that already have usages (parents, grand-parents, binders over them) when
# they are merged, get a symmetry or lose a slot.  The base terms are inserted up front and are
# not sides of any equation.
P12, P21, P13 = "(p 1 2)", "(p 2 1)", "(p 1 3)"
U4 = universe("U4", 4, [
    (F12, F21), (P12, P21), (F12, P12), (F12, P21),
    (P12, V1), (F12, V1),
    (F12, GF12), ("(g (p 1 2))", P12),
    (F12, "(g (p 1 2))"),
    (P12, P13),
    (V1, C),
    ("(g (p 1 2))", "(g (f 1 2))"),
    ("(g (g (p 1 2)))", F12),      # a small class merged into a bigger one whose datum improves
    ("(g (g (p 1 2)))", V1),
    ("(lam 2 (p 2 1))", V1),       # a binder term with a free slot in an equation: if the binder captures that slot the other side loses its slot
], base=["(p 2 3)", "(lam 2 (p 2 1))",      # FIRST: under the naming fresh-lazy name 1 is parsed right before this binder is refreshed
         "(h (v 1) (v 2))", "(h (g (g (p 1 2))) (f 1 2))", "(h (g (g (p 1 2))) (v 1))", "(g (g (g (p 1 2))))", "(g (p 1 2))", "(g (g (p 1 2)))", "(h (p 1 2) (v 1))", "(h (v 2) (p 1 2))", "(lam 1 (p 1 2))", "(g (v 1))",
         "(h (p 1 2) (p 2 3))", "(h (p 2 1) (v 1))", "(h (p 1 2) (p 2 1))"],
   note="pre-inserted parents / grand-parents of the classes that get merged")

# U5 "two symmetric children": an e-node with a redundant slot whose children get symmetries, in
# every temporal order (redundancy first, symmetry first, both children in the same class).
HF4, HP4 = "(h (f 1 2) (f 3 4))", "(h (f 1 2) (p 3 4))"
U5 = universe("U5", 5, [
    (HF4, "(f3 1 3 4)"),          # slot 2 redundant in the class of h(f12, f34)
    (F12, F21),                   # both children become symmetric at once
    (HP4, "(f3 1 3 4)"),
    (P12, P21),
    (F12, P12),
    (HF4, "(f 1 3)"),             # two redundant slots
    (HF4, HP4),
], base=["(h (f 1 2) (f 4 3))", "(h (f 2 1) (f 3 4))", "(g (h (f 1 2) (f 3 4)))"],
   note="redundant slot + two symmetric children (determine_self_symmetries with several variants)")

# U6 "analysis cascade": a class X = {h(S, W), g(g(g(S)))} whose datum improves TWICE during one
# rebuild when S becomes small (first through the short path, later through the longer but
# finally better one), with many parents of X that may be re-analysed in between.
S5 = "(g (g (g (g (g d)))))"
W4 = "(g (g (g (g c))))"
XA, XB = "(h %s %s)" % (S5, W4), "(g (g (g %s)))" % S5
U6 = universe("U6", 4, [
    (XA, XB),
    (S5, "c"),
    (S5, "(v 1)"),
    (XB, "(h (v 1) (v 2))"),
], base=["(g %s)" % XB, "(h %s c)" % XB, "(h c %s)" % XB, "(h %s %s)" % (XB, XB), "(h %s d)" % XB, "(h d %s)" % XB,
         "(g (g %s))" % XB, "(h (g %s) c)" % XB, "(lam 1 (h %s (v 1)))" % XB],
   note="analysis data that change more than once per rebuild (modify queue, upward propagation)")

# U7 "transport of groups": a class whose symmetry group needs TWO generators (asserted by explicit unions, not derivable
# from its e-nodes) is merged into a bigger class (parents pre-inserted) as the deprecated side: move_to has to carry over
# every generator.  Three equations are needed, so this small universe runs with MaxEqs 3 in the quick tier as well.
P3 = lambda a, b, c: "(p3 %d %d %d)" % (a, b, c)
U7 = universe("U7", 4, [
    (F3(1, 2, 3), F3(2, 1, 3)),
    (F3(1, 2, 3), F3(2, 3, 1)),
    (F3(1, 2, 3), P3(1, 2, 3)),
    (P3(1, 2, 3), P3(1, 3, 2)),
    (F3(1, 2, 3), P3(3, 1, 2)),
    (F3(1, 2, 3), F3(1, 3, 2)),
], base=["(g (p3 1 2 3))", "(h (p3 1 2 3) (v 1))"],
   note="symmetry groups with two generators transported by move_to")

# U8 "self reference under an analysis": a class that contains an e-node referring to the class itself ({v1, h(v1, c)}),
# whose child class is then merged into a bigger one with other leaves: the e-node is re-canonicalised AND its re-make
# improves its own class (only for analyses in which every e-node contributes, e.g. the set of leaf operators).
U8 = universe("U8", 4, [
    (V1, "(h (v 1) c)"),
    (C, D),
    (V1, GV1),
    (D, "(g d)"),
    (C, "(h c c)"),
    (V1, "(h (v 1) (v 1))"),
], base=["(g d)", "(h d d)"],
   note="self-referential e-nodes whose class datum improves while they are re-canonicalised")

# U9 "chains": a class deprecated by congruence (g(f12) into g(p12) when f12 = p12), the survivor deprecated by an explicit
# union into a bigger class (h(v1,v2) with parents), which then loses a slot: the old ids form an uncompressed two-step
# union-find chain whose last link was written before the leader shrank.  Needs three calls, so MaxEqs 3 in the quick tier.
HV12 = "(h (v 1) (v 2))"
U9 = universe("U9", 4, [
    (F12, P12),
    ("(g (p 1 2))", HV12),
    (HV12, "(h (v 1) (v 3))"),
    ("(g (f 1 2))", HV12),
    (HV12, "(h (v 2) (v 1))"),
], base=["(g (f 1 2))", "(g (p 1 2))", "(g %s)" % HV12, "(h %s c)" % HV12],
   note="two-step union-find chains of dead ids, then the leader shrinks / gets a symmetry")

# U10 "four slots": an equation whose right side mentions its left side with ROTATED arguments, f4(1,2,3,4) = g(f4(2,3,4,1)),
# plus an argument symmetry asserted afterwards: the swap of the first two arguments travels through the self-reference to
# every neighbouring pair (the class ends with all 24 symmetries), each step found by an e-node that refers to its own class.
F4 = lambda a, b, c, d: "(f4 %d %d %d %d)" % (a, b, c, d)
U10 = universe("U10", 5, [
    (F4(1, 2, 3, 4), "(g (f4 2 3 4 1))"),
    (F4(1, 2, 3, 4), F4(2, 1, 3, 4)),
    (F4(1, 2, 3, 4), F4(2, 3, 4, 1)),
    (F4(1, 2, 3, 4), F4(1, 2, 3, 5)),
    (F4(1, 2, 3, 4), "(g (f4 1 2 3 4))"),
], note="4-slot class with a rotating self-reference; 4 names per equation, pool 5")

# U11 "slot after child": nodes w(child, slot) whose direct slot comes after a symmetric child and repeats one of its
# arguments: the weak shape numbers slots over the WHOLE node, so the group variant w(f(y,x), x) of w(f(x,y), x) is a
# different node (w(f(1,2),1) vs w(f(1,2),2)) although the children's invocations look alike.
U11 = universe("U11", 4, [
    (F12, F21),
    ("(w 1 (f 1 2))", "(w 1 (f 1 3))"),
    ("(w 1 (f 1 2))", V1),
    ("(w 1 (f 1 2))", "(w 2 (f 1 2))"),
    ("(wb 1 2 (f 1 2))", "(wb 1 2 (f 2 1))"),
    ("(wb 1 2 (f 1 2))", V1),
    (F12, P12),
], base=["(w 1 (f 1 2))", "(w 2 (f 1 2))", "(wb 1 2 (f 1 2))", "(wb 1 1 (f 1 2))", "(g (w 1 (f 1 2)))"],
   note="direct slot fields after a (symmetric) child")

# U12 "shadowing double binders": a node that binds the SAME name twice (Bind<Bind<..>>, the inner binder shadows the
# outer one) is congruent to a node with two different binder names once a slot of the child is redundant (D19: the
# explanation machinery numbered bound slots by name).
U12 = universe("U12", 4, [
    (F12, V2),
    (F12, F21),
    ("(sum c 2 2 (f 3 2))", "c"),
    ("(sum (v 1) 2 2 (f 1 2))", "(sum (v 1) 3 2 (v 2))"),
], base=["(sum c 2 2 (f 3 2))", "(sum c 2 3 (v 3))", "(sum c 2 3 (f 2 3))", "(g (sum c 2 2 (f 3 2)))"],
   note="a doubly bound name (inner shadows outer) next to distinct binder names")

# U13 "almost instances": terms that fail to be an instance of a pattern ONLY because two different slots would have to be
# the same pattern slot (injectivity of the slot bijection across different e-nodes of one match): h(p(1,2), v(3)) is no
# instance of (h (p $1 $2) (v $1)), w(p(1,2); 3) none of (w (p $1 $2) $1) - and the collapsed spellings are absent.
U13 = universe("U13", 4, [
    (C, D),
    (P12, P21),
    ("(g (p 1 2))", "(g (p 2 1))"),
], base=["(h (p 1 2) (v 3))", "(w 3 (p 1 2))", "(h (v 3) (p 1 2))", "(h (p 1 2) (p 3 2))"],
   note="non-injective slot maps in e-matching")

# U14 "own slot": a node with a child AND a direct slot that no child mentions (w(p(1,2); 3), wb) whose child loses a slot:
# the redundancy travels upwards through the node, which must keep its own slot (seeded C01j: the upward shrink kept only
# the slots the CHILDREN still mention).  Both ways: the parent exists before the child shrinks / is added afterwards while
# the surviving child class still has a redundant syntactic parameter (p(1,2) = f(1,3)).
U14 = universe("U14", 4, [
    (P12, V1),
    (P12, "(f 1 3)"),
    ("(w 3 (p 1 2))", "(w 3 (v 1))"),
    ("(g (w 3 (p 1 2)))", "(w 3 (f 1 2))"),
], base=["(w 3 (p 1 2))", "(wb 3 2 (p 1 2))", "(g (w 3 (p 1 2)))", "(w 1 (p 1 2))"],
   note="a direct slot of a parent that no child mentions, child loses a slot")

# U15 "three children": an e-node with the SAME child class at two non-adjacent positions, ite(A, B, A) (seeded C06m: a counter
# of outstanding child classes that de-duplicates only adjacent ids), as the cheapest term of its class, as the only term of its
# class, under a parent.
U15 = universe("U15", 4, [
    ("(ite (v 1) c (v 1))", "(g (g (g (g (v 1)))))"),
    ("(ite (v 1) d (v 2))", "(g (g (g (h (v 1) (v 2)))))"),
    (C, D),
], base=["(ite (v 1) c (v 1))", "(ite (v 1) d (v 2))", "(g (ite (v 1) c (v 1)))", "(ite (v 2) (v 1) (v 2))"],
   note="ternary operator, child class repeated at non-adjacent positions")

# U16 "self-reference through a dead id": c = g(c) where the class of g(c) survives the union (it has two parents), so the
# e-node g(<dead id of c>) is stale when it is processed and its re-make improves its OWN class (height tags): D25.
U16 = universe("U16", 4, [
    (C, "(g c)"),
    (D, "(g (g c))"),
    ("(v 1)", "(h (v 1) d)"),
], base=["(g c)", "(g (g c))", "(h (g c) d)", "(lam 1 (h (g c) (v 1)))"],
   note="an e-node that reaches its own class through a merged-away id")

# U17 "two orbits, one shrink": a 4-slot class with the symmetries (1 2) and (3 4) loses one slot of EACH orbit in a single union
# (f4(1,2,3,4) = p(2,4)): both generators break at once, each re-assertion makes a further slot redundant (seeded C12m: the loop
# over the broken generators stopped after the first nested shrink).  Three equations, every order.
U17 = universe("U17", 5, [
    (F4(1, 2, 3, 4), F4(2, 1, 3, 4)),
    (F4(1, 2, 3, 4), F4(1, 2, 4, 3)),
    (F4(1, 2, 3, 4), "(p 2 4)"),
], base=["(g (f4 1 2 3 4))"],
   note="two generators on different orbits broken by one shrink; 4 names per equation, pool 5")

# U18 "wide node over a symmetric child": a ternary e-node whose three children share three slots, two of them invocations of a
# class that becomes symmetric (seeded C11n: the canonical group variant of nodes with more than two children chosen by comparing
# the user's slot NAMES - the same term under another relative order of its names gets another shape, lookup misses it)
U18 = universe("U18", 4, [
    ("(f 1 2)", "(f 2 1)"),
    ("(ite (f 1 2) (f 2 3) (v 1))", "(g (f3 1 2 3))"),
    ("(ite (f 1 2) (f 2 3) (v 3))", "(g (f3 3 2 1))"),
], base=["(ite (f 1 2) (f 2 3) (v 1))", "(ite (f 2 1) (f 3 2) (v 1))", "(ite (f 1 2) (f 2 3) (v 3))", "(g (ite (f 1 2) (f 2 3) (v 1)))",
         "(ite (f 1 2) (v 3) (f 3 2))"],
   note="three children sharing three slots, child class symmetric")

# U19 "a dearer sibling first": a class whose two e-nodes become ready in the SAME step of the extractor's work list - both use the
# class g(c) that is settled - at different costs (h(g(c), c) = 4, g(g(c)) = 3), while everything still waiting is dearer (h(g(d), g(d)) = 5).
# A work list that settles the first candidate it sees (seeded C06o: a one-element fast lane in front of the heap) fixes the class at 4.
# Both roles of c / d, so that either order of the two cost-2 classes is covered.
U19 = universe("U19", 4, [
    ("(h (g c) c)", "(g (g c))"),
    ("(h (g d) d)", "(g (g d))"),
    ("(h (g c) (g c))", "(h (g d) (g d))"),
], base=["(h (g d) (g d))", "(h (g c) (g c))", "(g (h (g c) c))"],
   note="two candidates of one class ready in the same step, the dearer one possibly first; dearer work pending")

ALL = {"U19": U19, "U18": U18, "U17": U17, "U16": U16, "U15": U15, "U14": U14, "U13": U13, "U12": U12, "U11": U11, "U10": U10, "U9": U9, "U8": U8, "U7": U7, "U1": U1, "U2": U2, "U3": U3, "U4": U4, "U5": U5, "U6": U6}

if __name__ == "__main__":
    out = os.path.dirname(os.path.abspath(__file__))
    for name, u in ALL.items():
        with open(os.path.join(out, name + ".json"), "w") as f:
            json.dump(u, f, separators=(",", ":"))
        print(name, "terms", len(u["terms"]), "eqs", len(u["eqs"]))
