#!/usr/bin/env python3
"""Universes for C04 (every represented instance of a rule's left side fires): one per rule.
Inputs only: rule patterns, substitutions, planted variants, alias (balanced) unions.  The
instances l.sigma / r.sigma listed here are RE-COMPUTED by TLC with Terms.Inst and must agree."""
import json, os, itertools, copy
from gen import parse, SIG_T

SIGP = dict(SIG_T)
for v in ["?a", "?b", "?c"]:
    SIGP[v] = (0, [])

def show(t):
    if not t["sl"] and not t["ch"]:
        return t["op"]
    s = "(" + t["op"]
    for x in t["sl"]:
        s += " %d" % x
    for c in t["ch"]:
        for x in c["bd"]:
            s += " %d" % x
        s += " " + show(c["t"])
    return s + ")"

def inst(pat, sigma, rho):
    if pat["op"].startswith("?"):
        return copy.deepcopy(sigma[pat["op"]])
    return {"op": pat["op"], "sl": [rho[x] for x in pat["sl"]],
            "ch": [{"bd": [rho[x] for x in c["bd"]], "t": inst(c["t"], sigma, rho)} for c in pat["ch"]]}

def replace_sub(t, a, b):
    """all variants of t with ONE occurrence of subterm a replaced by b"""
    out = []
    if t == a:
        out.append(copy.deepcopy(b))
    for k, c in enumerate(t["ch"]):
        for v in replace_sub(c["t"], a, b):
            t2 = copy.deepcopy(t)
            t2["ch"][k]["t"] = v
            out.append(t2)
    return out

# name, lhs, rhs, pattern slots, variable substitutions to plant
SUB = ["c", "(v 3)", "(f 2 3)", "(g c)", "(g (v 3))", "(f 3 2)"]
RULES = [
    ("hcomm", "(h ?a ?b)", "(h ?b ?a)", [], [("c", "(v 3)"), ("(f 2 3)", "(g c)"), ("(v 3)", "(v 3)"), ("(f 2 3)", "(f 3 2)"), ("(g (v 3))", "c")]),
    ("hidem", "(h ?a ?a)", "?a", [], [("c",), ("(v 3)",), ("(f 2 3)",), ("(g c)",), ("(g (v 3))",)]),
    ("gg", "(g (g ?a))", "?a", [], [("c",), ("(v 3)",), ("(f 2 3)",), ("(g c)",)]),
    ("hf", "(h (f 1 2) ?b)", "(h ?b (f 2 1))", [1, 2], [("c",), ("(v 3)",), ("(f 2 3)",), ("(v 1)",), ("(f 1 2)",), ("(f 2 1)",)]),
    ("lamh", "(lam 1 (h ?a (v 1)))", "(lam 1 (h (v 1) ?a))", [1], [("c",), ("(v 3)",), ("(f 2 3)",), ("(v 1)",), ("(f 1 3)",)]),
    ("glam", "(g (lam 1 ?a))", "(lam 1 (g ?a))", [1], [("c",), ("(v 3)",), ("(v 1)",), ("(f 1 3)",), ("(f 3 1)",), ("(f 2 3)",)]),
    ("hag", "(h ?a (g ?a))", "(g ?a)", [], [("c",), ("(v 3)",), ("(f 2 3)",), ("(g c)",)]),
    ("fswap", "(h (f 1 2) (f 2 1))", "(g (f 1 2))", [1, 2], [()]),
    # explicit pattern slots tie a (possibly symmetric) child to a non-symmetric sibling
    ("hfp", "(h (f 1 2) (p 2 1))", "(g (p 1 2))", [1, 2], [()]),
    ("hfv", "(h (f 1 2) (v 1))", "(g (v 1))", [1, 2], [()]),
    ("hfpb", "(h (f 1 2) (h ?b (p 2 1)))", "(h ?b (p 1 2))", [1, 2], [("c",), ("(v 3)",), ("(v 1)",)]),
    # a pattern variable is bound BEFORE the first node that mentions the pattern's free slot,
    # and its instance uses that very slot
    ("hav", "(h ?a (v 1))", "(h (v 1) ?a)", [1], [("c",), ("(v 1)",), ("(g (v 1))",), ("(f 1 3)",), ("(v 3)",), ("(f 3 1)",)]),
    ("haf", "(h ?a (f 1 2))", "(g ?a)", [1, 2], [("(v 1)",), ("(v 2)",), ("(f 2 1)",), ("(g (f 1 2))",), ("c",)]),
    # a repeated variable bound to two spellings of a class whose symmetry group needs TWO generators
    # (two symmetric children): the second spelling differs by the product of both (planted with two
    # replacements, see DOUBLE)
    ("hidem4", "(h ?a ?a)", "?a", [], [("(h (f 1 2) (f 3 4))",)]),
]
DOUBLE = {"hidem4": [("(f 1 2)", "(f 2 1)"), ("(f 3 4)", "(f 4 3)")]}
# balanced alias unions (same free slots on both sides, no redundancy by themselves)
ALIAS = [("(p 2 1)", "(g (p 2 1))"), ("c", "d"), ("(v 3)", "(g (v 3))"), ("(f 2 3)", "(g (f 2 3))"), ("(f 2 3)", "(f 3 2)"), ("(g c)", "d"),
         ("(v 1)", "(g (v 1))"), ("(f 1 2)", "(f 2 1)"), ("(f 1 3)", "(g (f 1 3))"), ("(f 1 2)", "(g (f 1 2))")]

def build(rule):
    name, l, r, pslots, subs = rule
    lp, rp = parse(l, SIGP), parse(r, SIGP)
    vars_ = sorted({x for x in ["?a", "?b", "?c"] if x in l})
    terms, index = [], {}
    def ti(t):
        k = json.dumps(t, sort_keys=True)
        if k not in index:
            terms.append(t)
            index[k] = len(terms)
        return index[k]
    alias = [(parse(a), parse(b)) for a, b in ALIAS]
    eqs, eqidx = [], {}
    instances, base = [], []
    rhos = [{x: x for x in pslots}]
    if pslots:
        rhos.append({x: y for x, y in zip(pslots, [2, 1, 3][:len(pslots)] if len(pslots) > 1 else [2])})
    for sub in subs:
        sigma = {v: parse(s) for v, s in zip(vars_, sub)}
        for rho in rhos:
            li, ri = inst(lp, sigma, rho), inst(rp, sigma, rho)
            planted = [li]
            used = []
            for (a, b) in alias:
                for (x, y) in [(a, b), (b, a)]:
                    vs = replace_sub(li, x, y)
                    if vs:
                        planted += vs[:2]
                        used.append((a, b))
            if name in DOUBLE:
                # ONLY variants in which BOTH symmetric children are respelled: the left side is then
                # represented through the product of two generators of the class's symmetry group
                dbl = [(parse(x), parse(y)) for x, y in DOUBLE[name]]
                planted, used = [li], list(dbl)
                for v in replace_sub(li, dbl[0][0], dbl[0][1]):
                    planted += [w for w in replace_sub(v, dbl[1][0], dbl[1][1])
                                if replace_sub(w, dbl[0][1], dbl[0][0]) and w != li and
                                   json.dumps(w).count(json.dumps(dbl[0][1])) == json.dumps(w).count(json.dumps(dbl[1][1]))]
            for (a, b) in used:
                k = (ti(a), ti(b))
                if k not in eqidx:
                    eqidx[k] = len(eqs) + 1
                    eqs.append([k[0], k[1]])
            instances.append({"sigma": {v: sigma[v] for v in vars_}, "rho": [[x, rho[x]] for x in pslots],
                              "l": ti(li), "r": ti(ri), "planted": [ti(p) for p in planted[1:]]})
    # a left side that is itself planted would be present literally: plant only the aliased
    # variants, unless an instance has none
    lset = {i["l"] for i in instances}
    for i in instances:
        pl = [p for p in i["planted"] if p not in lset]
        if not pl:
            pl = [i["l"]]
        i["planted"] = pl
        base += pl
    # a few always-present alias unions even if unused, to vary the state space
    N = 4
    return {"name": "F_" + name, "N": N, "terms": terms, "texts": [show(t) for t in terms], "eqs": eqs,
            "base": sorted(set(base)), "rule": {"name": name, "l": lp, "r": rp, "ltext": l, "rtext": r, "pslots": pslots},
            "instances": instances, "note": "C04 planted instances"}

if __name__ == "__main__":
    out = os.path.dirname(os.path.abspath(__file__))
    for rule in RULES:
        u = build(rule)
        json.dump(u, open(os.path.join(out, u["name"] + ".json"), "w"), separators=(",", ":"))
        print(u["name"], "terms", len(u["terms"]), "eqs", len(u["eqs"]), "instances", len(u["instances"]), "base", len(u["base"]))
