#!/usr/bin/env python3
"""Enumerates the e-nodes (inputs only) for the C16 shape check: every variant layout of the
harness language T x every slot assignment over NAMES x child invocations with 0/1/2 arguments."""
import itertools, json, os
NAMES = [1, 2, 3, 4]

def invs(max_args=2):
    out = [{"id": 0, "args": []}]
    out += [{"id": 1, "args": [a]} for a in NAMES]
    if max_args >= 2:
        out += [{"id": 2, "args": [a, b]} for a in NAMES for b in NAMES if a != b]
    return out

def child(bd, inv):
    return {"bd": list(bd), "id": inv["id"], "args": inv["args"]}

def nodes():
    out = []
    out.append({"op": "c", "sl": [], "ch": []})
    for a in NAMES:
        out.append({"op": "v", "sl": [a], "ch": []})
    for s in itertools.product(NAMES, repeat=2):
        out.append({"op": "f", "sl": list(s), "ch": []})
    for s in itertools.product(NAMES, repeat=3):
        out.append({"op": "f3", "sl": list(s), "ch": []})
    I = invs()
    I12 = [i for i in I if i["id"] != 0]
    I1 = [i for i in I if i["id"] == 1]
    for i in I:
        out.append({"op": "g", "sl": [], "ch": [child([], i)]})
    for i in I12:
        for j in I12:
            out.append({"op": "h", "sl": [], "ch": [child([], i), child([], j)]})
    for x in NAMES:
        for i in I:
            out.append({"op": "lam", "sl": [], "ch": [child([x], i)]})
    for x in NAMES:
        for i in I12:
            for j in I12:
                out.append({"op": "let", "sl": [], "ch": [child([x], i), child([], j)]})
                out.append({"op": "k", "sl": [], "ch": [child([], i), child([x], j)]})
    for x in NAMES:
        for y in NAMES:
            for i in I1:
                for j in I12:
                    out.append({"op": "sum", "sl": [], "ch": [child([], i), child([x, y], j)]})
    # a Slot field AFTER an AppliedId field / after a Bind field (layout  W(AppliedId, Slot), Wb(Bind<AppliedId>, Slot))
    for x in NAMES:
        for i in I12:
            out.append({"op": "w", "sl": [], "ch": [child([], i)], "ps": [x]})
        for y in NAMES:
            for i in I12:
                out.append({"op": "wb", "sl": [], "ch": [child([y], i)], "ps": [x]})
    # binders whose body mentions NO slot at all (a closed child class), next to a free child that uses the binder's name
    I0 = [i for i in I if i["id"] == 0]
    for x in NAMES:
        for i in I12:
            for j in I0:
                out.append({"op": "k", "sl": [], "ch": [child([], i), child([x], j)]})
                out.append({"op": "let", "sl": [], "ch": [child([x], j), child([], i)]})
        for y in NAMES:
            for i in I1:
                for j in I0:
                    out.append({"op": "sum", "sl": [], "ch": [child([], i), child([x, y], j)]})
            for j in I0:
                out.append({"op": "wb", "sl": [], "ch": [child([y], j)], "ps": [x]})
    for n in out:
        n.setdefault("ps", [])
    return out

if __name__ == "__main__":
    ns = nodes()
    d = os.path.dirname(os.path.abspath(__file__))
    json.dump({"names": NAMES, "nodes": ns}, open(os.path.join(d, "nodes_T.json"), "w"), separators=(",", ":"))
    print(len(ns), "nodes")
