#!/usr/bin/env python3
"""Random small universes for the SlottedCC pipeline (inputs only): random terms of the harness
language T over names 1..3 (pool N=4) and equations between a term and a *variation* of it
(permuted / renamed / collapsed slots, a subterm swapped, wrapped in another operator, or an
unrelated term), plus a few base terms that are parents of equation sides."""
import json, random, copy
from gen import SIG_T

LEAVES = [("f", 2), ("p", 2), ("v", 1), ("c", 0), ("d", 0), ("f3", 3), ("p3", 3)]
NAMES = [1, 2, 3]

def leaf(rng):
    op, k = rng.choice(LEAVES)
    return {"op": op, "sl": [rng.choice(NAMES) for _ in range(k)], "ch": []}

def term(rng, depth):
    if depth == 0 or rng.random() < 0.35:
        return leaf(rng)
    op = rng.choice(["g", "h", "lam", "let", "k", "sum", "g", "h", "w", "wb"])
    nsl, binders = SIG_T[op]
    return {"op": op, "sl": [rng.choice(NAMES) for _ in range(nsl)],
            "ch": [{"bd": [rng.choice(NAMES) for _ in range(nb)], "t": term(rng, depth - 1)} for nb in binders]}

def ren(t, m):
    return {"op": t["op"], "sl": [m.get(x, x) for x in t["sl"]],
            "ch": [{"bd": [m.get(x, x) for x in c["bd"]], "t": ren(c["t"], m)} for c in t["ch"]]}

def subterms(t):
    out = [t]
    for c in t["ch"]:
        out += subterms(c["t"])
    return out

def _names(t):
    out = list(t["sl"])
    for c in t["ch"]:
        out += c["bd"] + _names(c["t"])
    return out

def vary(rng, t, pool):
    r = rng.random()
    if r < 0.2:                        # bijective renaming of all names (symmetries)
        p = NAMES[:]
        rng.shuffle(p)
        return ren(t, dict(zip(NAMES, p)))
    if r < 0.3:                        # one transposition (a second generator next to an earlier one)
        a, b = rng.sample(NAMES, 2)
        return ren(t, {a: b, b: a})
    if r < 0.35:                       # self reference with ROTATED names
        return {"op": "g", "sl": [], "ch": [{"bd": [], "t": ren(t, {1: 2, 2: 3, 3: 1})}]}
    if r < 0.55:                       # rename ONE name to another / to a spare one (redundancy)
        a, b = rng.sample(NAMES, 2)
        return ren(t, {a: b})
    if r < 0.7:                        # wrap (self reference)
        return {"op": "g", "sl": [], "ch": [{"bd": [], "t": copy.deepcopy(t)}]}
    if r < 0.85 and t["ch"]:           # a child of it
        return copy.deepcopy(rng.choice(t["ch"])["t"])
    return copy.deepcopy(rng.choice(pool))

def show(t):
    if not t["sl"] and not t["ch"]:
        return t["op"]
    s = "(" + t["op"] + "".join(" %d" % x for x in t["sl"])
    for c in t["ch"]:
        s += "".join(" %d" % x for x in c["bd"]) + " " + show(c["t"])
    return s + ")"

def universe(seed, i):
    rng = random.Random(seed * 100003 + i)
    pool = [term(rng, rng.choice([1, 2, 2, 3])) for _ in range(4)]
    terms, index = [], {}
    def ti(t):
        k = json.dumps(t, sort_keys=True)
        if k not in index:
            terms.append(t)
            index[k] = len(terms)
        return index[k]
    eqs = []
    for _ in range(rng.choice([3, 4, 4, 5])):
        a = rng.choice(pool + [s for t in pool for s in subterms(t)])
        b = vary(rng, a, pool)
        if json.dumps(a, sort_keys=True) != json.dumps(b, sort_keys=True):
            eqs.append([ti(a), ti(b)])
    base = []
    for _ in range(rng.choice([0, 1, 2, 3, 4])):
        a = rng.choice(pool)
        par = rng.choice([
            {"op": "g", "sl": [], "ch": [{"bd": [], "t": a}]},
            {"op": "h", "sl": [], "ch": [{"bd": [], "t": a}, {"bd": [], "t": ren(a, {1: 2, 2: 1})}]},
            {"op": "lam", "sl": [], "ch": [{"bd": [rng.choice(NAMES)], "t": a}]},
            {"op": "h", "sl": [], "ch": [{"bd": [], "t": a}, {"bd": [], "t": {"op": "v", "sl": [rng.choice(NAMES)], "ch": []}}]},
            {"op": "h", "sl": [], "ch": [{"bd": [], "t": a}, {"bd": [], "t": a}]},                       # the same class twice
            {"op": "g", "sl": [], "ch": [{"bd": [], "t": {"op": "g", "sl": [], "ch": [{"bd": [], "t": a}]}}]},   # grandparent
            {"op": "w", "sl": [rng.choice(NAMES)], "ch": [{"bd": [], "t": a}]}])                           # slot after the child
        base.append(ti(par))
    # keep the ground universe small: estimate = sum over distinct subterms of the number of images
    def nimg(t):
        k = len({x for x in _names(t)})
        r = 1
        for j in range(k):
            r *= (4 - j)
        return max(r, 1)
    subs = {json.dumps(s, sort_keys=True): s for t in terms for s in subterms(t)}
    est = sum(nimg(s) for s in subs.values())
    if est > 330 and i < 100000:
        return universe(seed, i + 100003)
    return {"name": "R%d_%d" % (seed, i % 100003), "N": 4, "terms": terms, "texts": [show(t) for t in terms], "eqs": eqs,
            "base": sorted(set(base)), "note": "random universe"}

if __name__ == "__main__":
    import sys
    u = universe(int(sys.argv[1]), int(sys.argv[2]))
    print(json.dumps(u)[:2000])
    print([ (u["texts"][a-1], u["texts"][b-1]) for a, b in u["eqs"]], [u["texts"][b-1] for b in u["base"]])
