"""Pattern pool for the full match-set comparison (spec/EMatch.tla, C04 / C05).
Texts use {k} for pattern slot k (the harness puts the naming's k-th slot there, the
specification the name k).  Each bound pattern slot is bound once and not used free (scope of C04)."""
import gen

PATTERNS = [
    "?a", "(g ?a)", "(h ?a ?b)", "(h ?a ?a)", "(f {1} {2})", "(f {1} {1})", "(f3 {1} {2} {3})", "(v {1})",
    "(lam {1} ?a)", "(g (f {1} {2}))", "(h (f {1} {2}) ?b)", "(h (f {1} {2}) (f {2} {3}))", "(lam {1} (f {1} {2}))",
    "(lam {1} (f {2} {1}))", "(let {1} ?a ?b)", "(k ?a {1} ?b)", "(sum ?a {1} {2} ?b)", "(g (g ?a))",
    "(h ?a (v {1}))", "(h (v {1}) ?a)", "(h ?a (p {1} {2}))", "(h (v {1}) (v {2}))", "(h (p {1} {2}) (p {2} {1}))",
    "(lam {1} (h ?a (v {1})))", "(h (p {1} {2}) (v {1}))",
    # nodes whose children are symmetric / share slots, variables under and beside binders
    "(h (f {1} {2}) (f {2} {1}))", "(h (f {1} {2}) (v {2}))", "(g (h ?a ?b))", "(h (g ?a) ?a)", "(h ?a (g ?a))",
    "(sum ?a {1} {2} (f {1} {2}))", "(sum ?a {1} {2} (f {2} {1}))", "(let {1} (f {1} {2}) ?b)", "(k (v {1}) {2} ?b)",
    "(lam {1} (lam {2} ?a))", "(h (lam {1} ?a) ?b)", "(h ?b (lam {1} ?a))", "(g (lam {1} (f {1} {2})))",
    "(h (v {1}) (p {2} {1}))", "(h (v {1}) (p {1} {2}))", "(h (p {1} {2}) (p {1} {3}))", "(h (p {1} {2}) (p {3} {1}))",
    "(w ?a {1})", "(w (f {1} {2}) {1})", "(w (f {1} {2}) {2})", "(wb {1} ?a {2})", "(wb {1} (f {1} {2}) {2})",
    "(h (f3 {1} {2} {3}) ?a)", "(g (f3 {1} {2} {3}))", "(h ?a ?b) ", "(h (h ?a ?b) ?c)", "(h ?a (h ?b ?c))",
]
PATTERNS = [p.strip() for p in PATTERNS]
PATTERNS = [p for i, p in enumerate(PATTERNS) if p not in PATTERNS[:i]]


def _parse(toks):
    if toks[0] != "(":
        op = toks[0]
        if not op.startswith("?"):
            assert gen.SIG_T[op] == (0, []), op
        return {"op": op, "sl": [], "ch": []}, toks[1:]
    op = toks[1]
    nsl, binders = gen.SIG_T[op]
    toks = toks[2:]
    post = op in ("w", "wb")       # pattern texts are in the LIBRARY's order: these have their direct slot after the child
    sl = [] if post else [int(x) for x in toks[:nsl]]
    toks = toks if post else toks[nsl:]
    ch = []
    for nb in binders:
        bd = [int(x) for x in toks[:nb]]
        toks = toks[nb:]
        t, toks = _parse(toks)
        ch.append({"bd": bd, "t": t})
    if post:
        sl = [int(x) for x in toks[:nsl]]
        toks = toks[nsl:]
    assert toks[0] == ")", toks
    return {"op": op, "sl": sl, "ch": ch}, toks[1:]


def parse_pattern(text):
    for k in (1, 2, 3):
        text = text.replace("{%d}" % k, str(k))
    t, rest = _parse(gen.tokenize(text))
    assert not rest
    return t


def ops_of(t):
    s = set() if t["op"].startswith("?") else {t["op"]}
    for c in t["ch"]:
        s |= ops_of(c["t"])
    return s
