"""The rule pool of the harness language A (C03 C14 C15) - shared by the TLC model (validity)
and the Rust recorder.  Slots in patterns are names 1,2 ($1,$2 in the recorder)."""
import json, os, sys
sys.path.insert(0, os.path.dirname(os.path.abspath(__file__)))
from gen import parse

SIG_A = {"var": (1, []), "add": (0, [0, 0]), "mul": (0, [0, 0]), "sum": (0, [1]), "let": (0, [1, 0]),
         "subst": (0, [0, 0, 0]), "?a": (0, []), "?b": (0, []), "?c": (0, [])}
for k in range(0, 10):
    SIG_A[str(k)] = (0, [])

# name, lhs, rhs (text for the recorder), lhs/rhs in the generator DSL, condition (slot, var) or None
RULES = [
    ("comm-add", "(add ?a ?b)", "(add ?b ?a)", None),
    ("comm-mul", "(mul ?a ?b)", "(mul ?b ?a)", None),
    ("assoc-add", "(add (add ?a ?b) ?c)", "(add ?a (add ?b ?c))", None),
    ("assoc-mul", "(mul (mul ?a ?b) ?c)", "(mul ?a (mul ?b ?c))", None),
    ("distr", "(mul ?a (add ?b ?c))", "(add (mul ?a ?b) (mul ?a ?c))", None),
    ("add-0", "(add ?a 0)", "?a", None),
    ("mul-1", "(mul ?a 1)", "?a", None),
    ("mul-0", "(mul ?a 0)", "0", None),
    ("sum-lin", "(sum 1 (add ?a ?b))", "(add (sum 1 ?a) (sum 1 ?b))", None),
    ("sum-const", "(sum 1 ?a)", "(mul P ?a)", (1, "?a")),
    ("sum-pull", "(sum 1 (mul ?a ?b))", "(mul ?a (sum 1 ?b))", (1, "?a")),
    ("sum-swap", "(sum 1 (sum 2 ?a))", "(sum 2 (sum 1 ?a))", None),
    ("let-var", "(let 1 (var 1) ?c)", "?c", None),
    ("let-const", "(let 1 ?a ?c)", "?a", (1, "?a")),
    ("let-add", "(let 1 (add ?a ?b) ?c)", "(add (let 1 ?a ?c) (let 1 ?b ?c))", None),
    ("let-mul", "(let 1 (mul ?a ?b) ?c)", "(mul (let 1 ?a ?c) (let 1 ?b ?c))", None),
    ("let-sum", "(let 1 (sum 2 ?a) ?c)", "(sum 2 (let 1 ?a ?c))", None),
    ("let-subst", "(let 1 ?a ?c)", "(subst ?a (var 1) ?c)", None),
    # valid rules whose only effect can be a slot redundancy (no new class, no merge of two classes)
    ("mul0-var", "(mul 0 ?a)", "(mul 0 (var 3))", None),
    ("sum-rename", "(sum 1 (mul 0 ?a))", "(sum 2 (mul 0 (var 3)))", None),
    # a variable that is OUTSIDE the binder on the left moves under it: valid without a condition,
    # because the binder's slot cannot occur in what the variable stands for (no capture)
    ("pull-in", "(mul ?a (sum 1 ?b))", "(sum 1 (mul ?a ?b))", None),
    ("let-in", "(add ?a (let 1 ?b ?c))", "(let 1 (add ?a ?b) ?c)", None),
    # re-binding rules whose replacement MENTIONS the replaced variable: the sum over the whole field is invariant under
    # the bijections x -> x+1 and x -> 2x (p odd).  b[x := t(x)] must replace exactly the occurrences of x in b - a
    # subterm that only BECOMES equal to x after its own occurrences were replaced is not x (defect D17)
    ("add-p", "(add ?a P)", "?a", None),
    # a left side that passes twice through a class which an EARLIER rule of the same pass makes slot-free
    ("add-mul0", "(add (mul ?a 0) (mul ?a 0))", "(mul 0 ?a)", None),
    ("sum-shift", "(sum 1 ?a)", "(sum 1 (subst ?a (var 1) (add (var 1) 1)))", None),
    ("sum-scale", "(sum 1 ?a)", "(sum 1 (subst ?a (var 1) (mul 2 (var 1))))", None),
]
SUBPOOL = ["0", "1", "2", "(var 1)", "(var 2)", "(var 3)", "(add (var 1) 1)", "(mul (var 1) (var 1))", "(mul (var 2) (var 3))", "(sum 3 (mul (var 3) (var 1)))"]

def rules(p):
    out = []
    for name, l, r, cond in RULES:
        l2, r2 = l.replace("P", str(p)), r.replace("P", str(p))
        out.append({"name": name, "l": parse(l2, SIG_A), "r": parse(r2, SIG_A), "cond": [cond[0], cond[1]] if cond else [],
                    "ltext": l2, "rtext": r2})
    return out

if __name__ == "__main__":
    d = os.path.dirname(os.path.abspath(__file__))
    json.dump({"p": 3, "rules": rules(3), "subpool": [parse(s, SIG_A) for s in SUBPOOL]}, open(os.path.join(d, "rules_A.json"), "w"), separators=(",", ":"))
    print(len(RULES), "rules")
